package zexchk

import (
	"fmt"
	"hash/crc32"
	"os"
	"path/filepath"
	"runtime"
	"sort"
	"sync"
	"testing"

	"github.com/koron-go/z80/internal/zex"
	"github.com/koron-go/z80/verifharness/ref"
)

// flatBus is a plain 64 KiB memory for running the reference model as a CPU.
type flatBus struct{ m [65536]uint8 }

func (f *flatBus) Read(a uint16) uint8     { return f.m[a] }
func (f *flatBus) Write(a uint16, v uint8) { f.m[a] = v }
func (f *flatBus) In(uint8) uint8          { return 0 }
func (f *flatBus) Out(uint8, uint8)        {}

var crcTable = crc32.MakeTable(crc32.IEEE)

func updCRC(sum uint32, v uint8) uint32 { return crcTable[uint8(sum)^v] ^ (sum >> 8) }

// refRunIter is the procedure of z80_test.go with the model in place of the emulator.
func refRunIter(b *flatBus, it zex.Iter, shift, count uint64, mask uint8, crc uint32) uint32 {
	s := it.Status(shift, count)
	b.m[0x1000], b.m[0x1001], b.m[0x1002], b.m[0x1003], b.m[0x1004] = s.Inst0, s.Inst1, s.Inst2, s.Inst3, 0
	var st ref.State
	st.IY, st.IX = s.IY, s.IX
	st.H, st.L = uint8(s.HL>>8), uint8(s.HL)
	st.D, st.E = uint8(s.DE>>8), uint8(s.DE)
	st.B, st.C = uint8(s.BC>>8), uint8(s.BC)
	st.F, st.A, st.SP, st.PC = s.Flags, s.Accum, s.SP, 0x1000
	for i, u := range s.Bytes()[4:] {
		b.m[zex.Msbt+uint16(i)] = u
	}
	b.m[zex.Msbt+16], b.m[zex.Msbt+17] = 0x2a, 0x06
	if b.m[0x1000] == 0x76 || ((b.m[0x1000] == 0xdd || b.m[0x1000] == 0xfd) && b.m[0x1001] == 0x76) {
		return crc
	}
	for n := 0; ; n++ {
		in := ref.Step(&st, b)
		if !in.Implemented {
			panic(fmt.Sprintf("model does not implement %02x %02x %02x %02x", s.Inst0, s.Inst1, s.Inst2, s.Inst3))
		}
		if st.PC == 0x1004 {
			break
		}
		if st.Halt || n > 1<<20 {
			panic("unexpected termination")
		}
	}
	var a zex.Status
	a.MemOP = uint16(b.m[zex.Msbt]) | uint16(b.m[zex.Msbt+1])<<8
	a.IY, a.IX = st.IY, st.IX
	a.HL = uint16(st.H)<<8 | uint16(st.L)
	a.DE = uint16(st.D)<<8 | uint16(st.E)
	a.BC = uint16(st.B)<<8 | uint16(st.C)
	a.Flags, a.Accum, a.SP = st.F&mask, st.A, st.SP
	for _, u := range a.Bytes()[4:] {
		crc = updCRC(crc, u)
	}
	return crc
}

func refRunCase(c zex.Case) uint32 {
	b := &flatBus{}
	var crc uint32 = 0xffffffff
	it := c.Iter()
	crc = refRunIter(b, it, 0, 0, c.FlagMask, crc)
	shiftMax, countMax := c.Maxes()
	for j := uint64(1); j < countMax; j++ {
		crc = refRunIter(b, it, 1, j, c.FlagMask, crc)
	}
	for i := uint64(2); i < shiftMax+2; i++ {
		for j := uint64(0); j < countMax; j++ {
			crc = refRunIter(b, it, i, j, c.FlagMask, crc)
		}
	}
	return crc
}

// TestRefModelZex validates the oracle: the reference model, run as a CPU
// through the 2 x 67 exerciser groups, must reproduce the CRCs measured on
// real silicon (the one exception allowed is listed below).
func TestRefModelZex(t *testing.T) {
	type job struct {
		variant string
		c       zex.Case
	}
	var jobs []job
	for _, c := range zex.DocCases {
		jobs = append(jobs, job{"doc", c})
	}
	for _, c := range zex.AllCases {
		jobs = append(jobs, job{"all", c})
	}
	var mu sync.Mutex
	var bad []string
	var wg sync.WaitGroup
	sem := make(chan struct{}, runtime.GOMAXPROCS(0))
	for _, j := range jobs {
		wg.Add(1)
		go func(j job) {
			defer wg.Done()
			sem <- struct{}{}
			defer func() { <-sem }()
			got := refRunCase(j.c)
			if got != uint32(j.c.Expect) {
				mu.Lock()
				bad = append(bad, fmt.Sprintf("%s:%s", j.variant, j.c.Desc))
				mu.Unlock()
			}
		}(j)
	}
	wg.Wait()
	sort.Strings(bad)
	out := fmt.Sprintf("reference model reproduces %d of %d zexdoc/zexall CRCs", len(jobs)-len(bad), len(jobs))
	if len(bad) > 0 {
		out += fmt.Sprintf("; differs on %v", bad)
	}
	fmt.Println("REFMODEL-ZEX:", out)
	if d := os.Getenv("VERIF_OUT"); d != "" {
		_ = os.WriteFile(filepath.Join(d, "refmodel-zex.txt"), []byte(out+"\n"), 0o644)
	}
	// zexall's "bit n,(hl)"-type groups depend on bits 5/3 of BIT b,(HL), which come from an
	// internal register (MEMPTR) that is not architectural state; property C02 declares them unspecified
	allowed := map[string]bool{"all:bit n,<b,c,d,e,h,l,(hl),a>": true, "all:bit n,(<ix,iy>+1)": true}
	for _, b := range bad {
		if !allowed[b] {
			t.Errorf("HARNESS: reference model fails exerciser group %s", b)
		}
	}
}
