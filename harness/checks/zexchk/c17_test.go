package zexchk

import (
	"bytes"
	"crypto/sha256"
	"encoding/hex"
	"encoding/json"
	"fmt"
	"os"
	"path/filepath"
	"strings"
	"testing"

	"github.com/koron-go/z80/internal/zex"
	"github.com/koron-go/z80/verifharness/stats"
	_ "pgregory.net/rapid"
)

// C17 — the Go exerciser tables are exactly the canonical zexdoc / zexall
// cases. Complete differential comparison of all 2 x 67 records x 65 bytes +
// description against the records located through the pointer table inside the
// program images, whose SHA-256 is pinned.

var env stats.Env

func TestMain(m *testing.M) {
	env = stats.Load()
	os.Exit(m.Run())
}

// SHA-256 of the canonical images shipped in cmd/zexdoc (pristine tree).
var pinned = map[string]string{
	"zexdoc.cim": "b3015112a99bb72273e0cacde7c7549eb9840ba996af76f7bf7992ef7d6e2f90",
	"zexall.cim": "fbb1bb5d46f61c33ea6841a71f2b23c49b9b62410ce6ed4e57b7d9b2e7b437e0",
}

type record struct {
	Index int    `json:"index"`
	Addr  int    `json:"addr"`
	Mask  int    `json:"mask"`
	Base  string `json:"base"`
	Inc   string `json:"inc"`
	Shift string `json:"shift"`
	CRC   string `json:"crc"`
	Desc  string `json:"desc"`
}

// parseImage walks the image like the program itself does: JP start; start: LD HL,(6); LD SP,HL;
// LD DE,msg1; LD C,9; CALL bdos; LD HL,tests; then the zero-terminated pointer table.
func parseImage(img []byte) ([]record, error) {
	const org = 0x0100
	at := func(a int) (byte, error) {
		if a-org < 0 || a-org >= len(img) {
			return 0, fmt.Errorf("address %04x outside the image", a)
		}
		return img[a-org], nil
	}
	word := func(a int) (int, error) {
		lo, err := at(a)
		if err != nil {
			return 0, err
		}
		hi, err := at(a + 1)
		return int(lo) | int(hi)<<8, err
	}
	if b, _ := at(org); b != 0xC3 {
		return nil, fmt.Errorf("image does not start with JP")
	}
	start, err := word(org + 1)
	if err != nil {
		return nil, err
	}
	pat := []int{0x2A, 0x06, 0x00, 0xF9, 0x11, -1, -1, 0x0E, 0x09, 0xCD, -1, -1, 0x21}
	for i, p := range pat {
		b, err := at(start + i)
		if err != nil {
			return nil, err
		}
		if p >= 0 && int(b) != p {
			return nil, fmt.Errorf("unexpected code at start+%d: %02x", i, b)
		}
	}
	tests, err := word(start + len(pat))
	if err != nil {
		return nil, err
	}
	var recs []record
	for i := 0; ; i++ {
		p, err := word(tests + 2*i)
		if err != nil {
			return nil, err
		}
		if p == 0 {
			break
		}
		if i > 1000 {
			return nil, fmt.Errorf("pointer table not terminated")
		}
		raw := make([]byte, 65)
		for k := range raw {
			if raw[k], err = at(p + k); err != nil {
				return nil, err
			}
		}
		var msg []byte
		for k := 0; ; k++ {
			b, err := at(p + 65 + k)
			if err != nil {
				return nil, err
			}
			if b == '$' {
				break
			}
			msg = append(msg, b)
			if k > 200 {
				return nil, fmt.Errorf("message of record %d not terminated", i)
			}
		}
		recs = append(recs, record{Index: i, Addr: p, Mask: int(raw[0]), Base: hex.EncodeToString(raw[1:21]), Inc: hex.EncodeToString(raw[21:41]),
			Shift: hex.EncodeToString(raw[41:61]), CRC: hex.EncodeToString(raw[61:65]), Desc: strings.TrimRight(string(msg), ".")})
	}
	return recs, nil
}

func goRecord(i int, c zex.Case) record {
	crc := []byte{byte(c.Expect >> 24), byte(c.Expect >> 16), byte(c.Expect >> 8), byte(c.Expect)}
	return record{Index: i, Mask: int(c.FlagMask), Base: hex.EncodeToString(c.BaseCase.Bytes()), Inc: hex.EncodeToString(c.IncVec.Bytes()),
		Shift: hex.EncodeToString(c.ShiftVec.Bytes()), CRC: hex.EncodeToString(crc), Desc: strings.TrimRight(c.Desc, ".")}
}

type c17Case struct {
	Variant string `json:"variant"`
	Image   record `json:"image_record"`
	Go      record `json:"go_case"`
}

func repoDir() string {
	if d := os.Getenv("VERIF_REPO"); d != "" {
		return d
	}
	return "/repo"
}

func fail(t *testing.T, c any, msg string) {
	stats.WriteViolation(env, stats.Violation{Property: "C17", Engine: "zex", Case: c, Expect: "Go table == record in the canonical image", Got: msg})
	t.Fatalf("VIOLATION-CANDIDATE C17 %s", msg)
}

func TestC17(t *testing.T) {
	col := stats.New("C17")
	col.Sub = "tables"
	if cfg := os.Getenv("VERIF_BUILDCFG"); cfg != "" {
		// the same comparison in a binary built another way (-race): the tables must not depend on how they are built
		col.Sub = "tables-" + cfg + "-build"
	}
	defer func() {
		if err := col.Write(env); err != nil {
			t.Errorf("HARNESS: %v", err)
		}
	}()
	col.Exhaustive = true
	col.Rule = "complete comparison (run twice: in a plain build and in a -race build of internal/zex): for zexdoc.cim and zexall.cim (SHA-256 pinned to the canonical images) the records are located through JP start / LD HL,tests / the zero-terminated pointer table; " +
		"every record (mask, 20-byte base, increment and shift vectors, 4-byte CRC, message up to '$') is compared byte for byte, in table order, with internal/zex DocCases / AllCases; counts must match; " +
		"evaluations = bytes compared; non-trivial = every record; distinct by construction"
	for _, v := range []struct {
		name  string
		file  string
		cases []zex.Case
	}{{"doc", "zexdoc.cim", zex.DocCases}, {"all", "zexall.cim", zex.AllCases}} {
		path := filepath.Join(repoDir(), "cmd", "zexdoc", v.file)
		img, err := os.ReadFile(path)
		if err != nil {
			fail(t, map[string]string{"file": path}, "canonical image missing: "+err.Error())
		}
		sum := sha256.Sum256(img)
		if got := hex.EncodeToString(sum[:]); got != pinned[v.file] {
			fail(t, map[string]string{"file": path, "sha256": got}, v.file+" is not the canonical image (SHA-256 differs from the pinned value)")
		}
		recs, err := parseImage(img)
		if err != nil {
			t.Fatalf("HARNESS: cannot parse %s: %v", v.file, err)
		}
		if len(recs) != len(v.cases) {
			fail(t, map[string]any{"variant": v.name, "image_records": len(recs), "go_cases": len(v.cases)},
				fmt.Sprintf("%s: image has %d cases, Go table has %d", v.name, len(recs), len(v.cases)))
		}
		for i, r := range recs {
			g := goRecord(i, v.cases[i])
			g.Addr = r.Addr
			col.Eval(65 + int64(len(r.Desc)))
			col.DistinctN(1)
			if g != r {
				fail(t, c17Case{v.name, r, g}, fmt.Sprintf("%s case %d (%q) differs from the record at %04x of %s", v.name, i, g.Desc, r.Addr, v.file))
			}
			if i%23 == 0 {
				col.Sample(uint64(i), c17Case{v.name, r, g})
			}
		}
		// the Go status (de)serialisation used above must itself be the identity on 20-byte vectors
		for i, c := range v.cases {
			b := c.BaseCase.Bytes()
			if len(b) != 20 || !bytes.Equal(b, c.BaseCase.Bytes()) {
				t.Fatalf("HARNESS: Bytes() unstable for case %d", i)
			}
		}
		col.LabelN("cases:"+v.name, int64(len(recs)))
	}
}

func TestReplay(t *testing.T) {
	// C17 has no generated inputs: a stored violation is re-decided by the full comparison
	files, _ := filepath.Glob(filepath.Join(os.Getenv("VERIF_REPLAY_DIR"), "C17", "*.json"))
	if f := os.Getenv("VERIF_REPLAY_FILE"); f != "" {
		files = []string{f}
	}
	for _, f := range files {
		b, err := os.ReadFile(f)
		if err != nil {
			continue
		}
		var d struct {
			Case c17Case `json:"case"`
		}
		var cnt struct {
			Case struct {
				Variant string `json:"variant"`
				Records int    `json:"image_records"`
			} `json:"case"`
		}
		if json.Unmarshal(b, &cnt) == nil && cnt.Case.Records > 0 {
			// a count mismatch: re-decided by counting
			n := len(zex.DocCases)
			if cnt.Case.Variant == "all" {
				n = len(zex.AllCases)
			}
			if n != cnt.Case.Records {
				fmt.Printf("REPLAY-FAIL property=C17 file=%s %s: image has %d cases, Go table has %d\n", f, cnt.Case.Variant, cnt.Case.Records, n)
				t.Fail()
			}
			continue
		}
		if json.Unmarshal(b, &d) != nil || d.Case.Variant == "" {
			continue
		}
		cases := zex.DocCases
		if d.Case.Variant == "all" {
			cases = zex.AllCases
		}
		i := d.Case.Image.Index
		if i >= len(cases) {
			fmt.Printf("REPLAY-FAIL property=C17 file=%s case %d missing\n", f, i)
			t.Fail()
			continue
		}
		g := goRecord(i, cases[i])
		g.Addr = d.Case.Image.Addr
		if g != d.Case.Image {
			fmt.Printf("REPLAY-FAIL property=C17 file=%s case %d differs from the image record\n", f, i)
			t.Fail()
		}
	}
	fmt.Printf("REPLAYED %d\n", len(files))
}
