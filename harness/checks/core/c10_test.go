package core

import (
	"encoding/json"
	"fmt"
	"runtime"
	"sync"
	"testing"

	"github.com/koron-go/z80"
	"github.com/koron-go/z80/verifharness/bus"
	"github.com/koron-go/z80/verifharness/eng"
	"github.com/koron-go/z80/verifharness/ref"
	"github.com/koron-go/z80/verifharness/stats"
	"pgregory.net/rapid"
)

// C10 — execution is deterministic, captured by States + memory, and isolated
// per CPU. Metamorphic (clone == original, alone == interleaved == concurrent)
// with the reference model as third party; built with -race.

// soupRunner drives one emulator CPU over a soup case (no model involved).
type soupRunner struct {
	b          *bus.Rec
	cpu        z80.CPU
	retn, reti counter
	// tbl: mode-0 request data is carved out of this host-owned array; the bytes behind it are not the emulator's
	tbl [16]uint8
	// bad: set when a Step wrote into tbl
	bad string
}

func (r *soupRunner) setHandlers(bits int) {
	r.cpu.RETNHandler, r.cpu.RETIHandler = nil, nil
	if bits&1 != 0 {
		r.cpu.RETNHandler = &r.retn
	}
	if bits&2 != 0 {
		r.cpu.RETIHandler = &r.reti
	}
}

type soupTrace struct {
	states []ref.State // state after each Step (index 0 = after Step 1)
	logs   []uint64    // hash of each Step's access log
	pend   []bool
	panic  any
}

func (r *soupRunner) load(c *soupCase) {
	r.b.Reset(c.MemSeed, c.IOSeed, c.Fill, c.IOFill)
	for i, x := range c.Code {
		r.b.Poke(c.St.PC+uint16(i), uint8(x))
	}
	r.cpu = z80.CPU{Memory: r.b, IO: r.b}
	if c.NilIO {
		r.cpu.IO = nil
	}
	r.setHandlers(c.Handlers)
	r.bad = ""
	eng.ToCPU(&c.St, &r.cpu)
}

func (r *soupRunner) applyEvents(c *soupCase, s int) {
	for _, it := range c.Intr {
		if it.AtStep == s {
			switch {
			case it.NMI:
				r.cpu.Interrupt = z80.NMIInterrupt()
			case len(it.Data) == 0:
				r.cpu.Interrupt = z80.IM1Interrupt()
			case len(it.Data) == 1 && s%2 == 0:
				r.cpu.Interrupt = z80.IM2Interrupt(uint8(it.Data[0]))
			case s%3 == 1 && len(it.Data) <= 8:
				// the host keeps its request bytes in a table of its own
				for i := range r.tbl {
					r.tbl[i] = canary
				}
				copy(r.tbl[:], toBytes(it.Data))
				r.cpu.Interrupt = &z80.Interrupt{Type: z80.IMType, Data: r.tbl[:len(it.Data)]}
			default:
				d := toBytes(it.Data)
				r.cpu.Interrupt = z80.IM0Interrupt(d[0], d[1:]...)
			}
		}
	}
	for _, a := range c.Actions {
		if a.AtStep == s {
			switch a.Kind {
			case "poke":
				r.b.Poke(a.Addr, uint8(a.Val))
			case "setpc":
				r.cpu.PC = a.Addr
			}
		}
	}
}

func logHash(l []bus.Access) uint64 {
	h := uint64(len(l))
	for _, x := range l {
		h = stats.Hash(h, uint64(x.K)<<24|uint64(x.Addr)<<8|uint64(x.Val))
	}
	return h
}

// stepOnce performs Step s (0-based) including the events scheduled before it.
func (r *soupRunner) stepOnce(c *soupCase, s int) (ref.State, uint64, bool, any) {
	r.applyEvents(c, s)
	r.b.Log = r.b.Log[:0]
	entry := r.cpu.Interrupt
	p := eng.SafeStep(&r.cpu)
	if entry != nil && len(entry.Data) > 0 && &entry.Data[0] == &r.tbl[0] {
		for _, x := range r.tbl[len(entry.Data):] {
			if x != canary && r.bad == "" {
				r.bad = fmt.Sprintf("Step %d wrote into the host's table behind the data bytes of the request it acknowledged", s+1)
			}
		}
	}
	return eng.FromCPU(&r.cpu), logHash(r.b.Log), r.cpu.Interrupt != nil, p
}

func (r *soupRunner) runAll(c *soupCase, from int, tr *soupTrace) {
	for s := from; s < c.Steps; s++ {
		st, lh, pend, p := r.stepOnce(c, s)
		if p != nil {
			tr.panic = p
			return
		}
		tr.states = append(tr.states, st)
		tr.logs = append(tr.logs, lh)
		tr.pend = append(tr.pend, pend)
	}
}

// clone rebuilds a brand-new CPU and memory from copies of the public state.
func (r *soupRunner) cloneInto(dst *soupRunner, copyHALT bool) {
	r.b.CopyTo(dst.b)
	if copyHALT && r.b.Accesses()&1 == 1 {
		// third way of rebuilding: a plain struct copy of the CPU value, given its own memory and ports
		dst.cpu = r.cpu
		dst.cpu.Memory, dst.cpu.IO = dst.b, dst.b
		if r.cpu.IO == nil {
			dst.cpu.IO = nil
		}
		if r.cpu.Interrupt != nil {
			it := *r.cpu.Interrupt
			it.Data = append([]uint8(nil), r.cpu.Interrupt.Data...)
			dst.cpu.Interrupt = &it
		}
		dst.flipHandlers(r)
		return
	}
	dst.cpu = z80.CPU{Memory: dst.b, IO: dst.b}
	if r.cpu.IO == nil {
		dst.cpu.IO = nil
	}
	dst.cpu.States = r.cpu.States // copy of States
	if copyHALT {
		// the host-visible HALT indication is not part of States; the property lets a CPU be rebuilt from
		// States, the pending request and memory alone, so both variants must continue alike
		dst.cpu.HALT = r.cpu.HALT
	}
	if r.cpu.Interrupt != nil {
		it := *r.cpu.Interrupt
		it.Data = append([]uint8(nil), r.cpu.Interrupt.Data...)
		dst.cpu.Interrupt = &it
	}
	dst.flipHandlers(r)
}

// flipHandlers gives the rebuilt CPU the opposite observer registration of the original.
func (r *soupRunner) flipHandlers(orig *soupRunner) {
	bits := 0
	if orig.cpu.RETNHandler == nil {
		bits |= 1
	}
	if orig.cpu.RETIHandler == nil {
		bits |= 2
	}
	r.setHandlers(bits)
}

type c10Case struct {
	Soup     soupCase  `json:"soup"`
	Snapshot int       `json:"snapshot"`        // clone is taken after this many Steps
	Other    *soupCase `json:"other,omitempty"` // interleaving partner
}

// c10Clone: the clone taken at boundary k must continue exactly like the original.
func c10Clone(a, b *soupRunner, c *soupCase, k int, full *soupTrace) string {
	if m := c10CloneV(a, b, c, k, full, true); m != "" {
		return m
	}
	return c10CloneV(a, b, c, k, full, false)
}

func c10CloneV(a, b *soupRunner, c *soupCase, k int, full *soupTrace, copyHALT bool) string {
	a.load(c)
	for s := 0; s < k; s++ {
		if _, _, _, p := a.stepOnce(c, s); p != nil {
			return ""
		}
	}
	a.cloneInto(b, copyHALT)
	var tr soupTrace
	b.runAll(c, k, &tr)
	if tr.panic != nil {
		return fmt.Sprint("clone panicked: ", tr.panic)
	}
	for i := range tr.states {
		s := k + i
		if s >= len(full.states) {
			break
		}
		if !copyHALT {
			tr.states[i].Halt = full.states[s].Halt // the indication itself is only carried along when copied
		}
		if tr.states[i] != full.states[s] {
			g, w := tr.states[i], full.states[s]
			m := fmtStateDiff(&g, &w)
			if g.R != w.R {
				m += fmt.Sprintf(" R=%02x want %02x", g.R, w.R)
			}
			return fmt.Sprintf("CPU rebuilt from States+memory after %d Steps diverges from the original at Step %d: %s", k, s+1, m)
		}
		if tr.logs[i] != full.logs[s] || tr.pend[i] != full.pend[s] {
			return fmt.Sprintf("CPU rebuilt from States+memory after %d Steps makes different accesses at Step %d", k, s+1)
		}
	}
	return ""
}

// c10Interleave: stepping another CPU (other program at the same addresses) between the Steps of
// this one must not change this one's trace.
func c10Interleave(a, b *soupRunner, c, other *soupCase, full *soupTrace) string {
	a.load(c)
	b.load(other)
	for s := 0; s < c.Steps && s < len(full.states); s++ {
		st, lh, pend, p := a.stepOnce(c, s)
		if p != nil {
			return fmt.Sprint("Step panicked only when interleaved: ", p)
		}
		if st != full.states[s] || lh != full.logs[s] || pend != full.pend[s] {
			g, w := st, full.states[s]
			return fmt.Sprintf("interleaved with another CPU, Step %d differs from the same program run alone: %s", s+1, fmtStateDiff(&g, &w))
		}
		if s < other.Steps {
			b.stepOnce(other, s)
		}
	}
	return ""
}

func init() {
	replayers["det"] = func(prop string, raw json.RawMessage) (string, error) {
		var c c10Case
		if err := json.Unmarshal(raw, &c); err != nil {
			return "", err
		}
		a, b := &soupRunner{b: bus.New()}, &soupRunner{b: bus.New()}
		a.load(&c.Soup)
		var full soupTrace
		a.runAll(&c.Soup, 0, &full)
		if full.panic != nil {
			return "", nil
		}
		if a.bad != "" {
			return a.bad, nil
		}
		if c.Other != nil {
			return c10Interleave(a, b, &c.Soup, c.Other, &full), nil
		}
		return c10Clone(a, b, &c.Soup, c.Snapshot, &full), nil
	}
}

func genC10Soup(t *rapid.T) soupCase {
	c := genSoup(t, 20, 48)
	genSoupIntr(t, &c, 2)
	c.Handlers = rapid.IntRange(0, 3).Draw(t, "handlers")
	if rapid.IntRange(0, 3).Draw(t, "retx") == 0 {
		// RETN / RETI with differing flip-flops (as inside an NMI routine)
		c.Code = append([]int{0xED, rapid.SampledFrom([]int{0x4D, 0x45}).Draw(t, "ret")}, c.Code...)
		c.St.IFF1, c.St.IFF2 = false, true
	}
	// harness actions that expose a decode cache: poke an executed address, set PC back to it
	if rapid.IntRange(0, 1).Draw(t, "actions?") == 0 {
		n := rapid.IntRange(1, 2).Draw(t, "nactions")
		for i := 0; i < n; i++ {
			a := soupAction{AtStep: rapid.IntRange(1, c.Steps).Draw(t, "actAt")}
			off := uint16(rapid.IntRange(0, len(c.Code)).Draw(t, "actOff"))
			if rapid.Bool().Draw(t, "poke") {
				a.Kind, a.Addr, a.Val = "poke", c.St.PC+off, int(rapid.Uint8().Draw(t, "val"))
			} else {
				a.Kind, a.Addr = "setpc", c.St.PC+off
			}
			c.Actions = append(c.Actions, a)
		}
	}
	return c
}

func TestC10Deterministic(t *testing.T) {
	col := stats.New("C10")
	col.Sub = "clone"
	defer finish(t, col)
	col.Rule = "clone: byte-soup programs (all instruction classes incl. prefixes and block repeats, interrupts raised at drawn Steps, harness actions that rewrite an executed address or set PC back to one) " +
		"run by Step; at snapshot points (every boundary in the thorough tier, 8 drawn ones in the quick tier) a brand-new CPU is built from a copy of States, pending request, HALT and a copy of memory and must " +
		"produce the same states and access logs as the original to the end; the same program stepped alternately with a different program on another CPU must reproduce its solo trace; " +
		"the solo trace is checked against the reference model; non-trivial = >= 8 Steps with a prefix, block repeat or interrupt; distinct by hash(code, state)"
	a, b := &soupRunner{b: bus.New()}, &soupRunner{b: bus.New()}
	lock := newLockRig()
	rapid.Check(t, func(t *rapid.T) {
		c := genC10Soup(t)
		other := genSoup(t, 12, c.Steps)
		other.St.PC = c.St.PC // same addresses, different bytes
		if rapid.IntRange(0, 3).Draw(t, "nilIO") == 0 {
			// neither machine has an I/O device, and both programs talk to the same port numbers: what one CPU
			// sends must not come back to the other (or to a later run)
			p, q := int(rapid.Uint8().Draw(t, "portP")), int(rapid.Uint8().Draw(t, "portQ"))
			c.NilIO, other.NilIO = true, true
			c.Code = append([]int{0xDB, p, 0xD3, q, 0xDB, q, 0xDB, p, 0x47, 0xDB, q}, c.Code...)
			other.Code = append([]int{0x3E, 0x5A, 0xD3, p, 0xD3, q, 0x3C, 0xD3, p}, other.Code...)
			c.Steps += 6
			other.Steps += 6
			col.Label("machines-without-io-device")
		}
		a.load(&c)
		var full soupTrace
		a.runAll(&c, 0, &full)
		col.Eval(1)
		if full.panic != nil {
			col.Label("discarded:step-panics")
			return
		}
		// third party: the model (only where it implements everything the program executes)
		if len(c.Actions) == 0 {
			msg, _, trunc, _ := soupLockstep(lock, &c, map[string]bool{eng.KState: true, eng.KFlags: true, eng.KMemImg: true, eng.KIff: true})
			if trunc {
				col.Label("model:no-verdict")
			} else if msg != "" {
				// the emulator deviates from the model when run alone: C01's finding, not a determinism failure
				col.Label("model:solo-run-deviates (left to C01)")
			} else {
				col.Label("model:solo-run-agrees")
			}
		}
		var points []int
		if env.Thorough() {
			for k := 0; k <= len(full.states); k++ {
				points = append(points, k)
			}
		} else {
			for i := 0; i < 8; i++ {
				points = append(points, rapid.IntRange(0, len(full.states)).Draw(t, "snapshot"))
			}
		}
		if a.bad != "" {
			violation(t, "C10", "det", c10Case{Soup: c}, "a Step writes nothing but the CPU's state, memory and ports", a.bad)
		}
		for _, k := range points {
			if msg := c10Clone(a, b, &c, k, &full); msg != "" {
				violation(t, "C10", "det", c10Case{Soup: c, Snapshot: k}, "clone continues exactly like the original", msg)
			}
			col.Label("snapshots")
		}
		if msg := c10Interleave(a, b, &c, &other, &full); msg != "" {
			violation(t, "C10", "det", c10Case{Soup: c, Other: &other}, "same trace as when run alone", msg)
		}
		if len(full.states) >= 8 {
			h := stateHash(&c.St)
			for _, x := range c.Code {
				h = stats.Hash(h, uint64(x))
			}
			col.Distinct(h)
			if col.WantSample(h) && len(c.Code) < 40 {
				col.Sample(h, c10Case{Soup: c, Snapshot: points[0]})
			}
		}
		if len(c.Intr) > 0 {
			col.Label("with-interrupts")
		}
		if len(c.Actions) > 0 {
			col.Label("with-rewrite-or-setpc")
		}
	})
}

// TestC10Concurrent: G goroutines, each with its own CPU, memory and program, run at the same
// time; every one must end exactly as when run alone. Any race report fails the run (-race).
func TestC10Concurrent(t *testing.T) {
	col := stats.New("C10")
	col.Sub = "concurrent"
	defer finish(t, col)
	col.Rule = "concurrent: rounds of G in 2..16 goroutines, each repeatedly running its own byte-soup program (own CPU, own memory; a third of the rounds start every program with drawn ED / DD / FD / DD CB sequences " +
		"most of which the emulator does not support, a quarter run without I/O device on shared port numbers) while the others run theirs - before anything has run these programs alone; every state and access-log hash " +
		"must equal the same program run alone afterwards; race detector on; non-trivial = every round; distinct by hash(round programs)"
	pool := make([]*soupRunner, 16)
	for i := range pool {
		pool[i] = &soupRunner{b: bus.New()}
	}
	rapid.Check(t, func(t *rapid.T) {
		g := rapid.IntRange(2, 16).Draw(t, "goroutines")
		reps := rapid.IntRange(1, 20).Draw(t, "reps")
		cases := make([]soupCase, g)
		solo := make([]soupTrace, g)
		undef := rapid.IntRange(0, 2).Draw(t, "undefined") == 0
		noIO := rapid.IntRange(0, 3).Draw(t, "nilIO") == 0
		var rh uint64
		for i := range cases {
			cases[i] = genC10Soup(t)
			cases[i].Actions = nil
			if undef {
				// every goroutine executes encodings the emulator may not support (and warns about) that nobody has
				// executed before in this process - at the same time as the others
				var pre []int
				for k := 0; k < 3; k++ {
					pre = append(pre, rapid.SampledFrom([]int{0xED, 0xDD, 0xFD}).Draw(t, "prefix"), int(rapid.Uint8().Draw(t, "afterPrefix")), 0x00, 0x00)
				}
				pre = append(pre, 0xDD, 0xCB, int(rapid.Uint8().Draw(t, "d")), int(rapid.Uint8().Draw(t, "ddcb")))
				cases[i].Code = append(pre, cases[i].Code...)
				cases[i].Steps += 8
			}
			if noIO {
				p := 0x10 + i&1
				cases[i].NilIO = true
				cases[i].Code = append([]int{0xDB, p, 0x3C, 0xD3, p, 0xDB, p}, cases[i].Code...)
				cases[i].Steps += 4
			}
			rh = stats.Hash(rh, stateHash(&cases[i].St), uint64(len(cases[i].Code)))
		}
		// the concurrent phase comes first (whatever the package initialises lazily is then initialised under
		// contention); the reference runs - each program alone - follow
		msgs := make([]string, g)
		first := make([]soupTrace, g)
		var wg sync.WaitGroup
		start := make(chan struct{})
		for i := 0; i < g; i++ {
			wg.Add(1)
			go func(i int) {
				defer wg.Done()
				r := pool[i]
				<-start
				for rep := 0; rep < reps; rep++ {
					r.load(&cases[i])
					var tr soupTrace
					r.runAll(&cases[i], 0, &tr)
					if rep == 0 {
						first[i] = tr
						continue
					}
					if (tr.panic != nil) != (first[i].panic != nil) || len(tr.states) != len(first[i].states) {
						msgs[i] = fmt.Sprintf("goroutine %d of %d: repetition %d ends differently from repetition 0 of the same program", i, g, rep)
						return
					}
					for s := range tr.states {
						if tr.states[s] != first[i].states[s] || tr.logs[s] != first[i].logs[s] {
							msgs[i] = fmt.Sprintf("goroutine %d of %d: repetition %d differs from repetition 0 of the same program at Step %d", i, g, rep, s+1)
							return
						}
					}
					runtime.Gosched()
				}
			}(i)
		}
		close(start)
		wg.Wait()
		a := pool[0]
		for i := range cases {
			a.load(&cases[i])
			a.runAll(&cases[i], 0, &solo[i])
			if solo[i].panic != nil && first[i].panic != nil {
				col.Label("discarded:step-panics")
				return
			}
			if msgs[i] != "" {
				continue
			}
			if (solo[i].panic != nil) != (first[i].panic != nil) {
				msgs[i] = fmt.Sprintf("goroutine %d of %d: Step panics only when run concurrently / only when run alone: %v / %v", i, g, first[i].panic, solo[i].panic)
				continue
			}
			for s := range solo[i].states {
				if s >= len(first[i].states) || first[i].states[s] != solo[i].states[s] || first[i].logs[s] != solo[i].logs[s] {
					msgs[i] = fmt.Sprintf("goroutine %d of %d: Step %d differs from the same program run alone", i, g, s+1)
					break
				}
			}
		}
		col.Eval(int64(g * reps))
		for i, m := range msgs {
			if m != "" {
				violation(t, "C10", "det", c10Case{Soup: cases[i]}, "same result as when run alone", m)
			}
		}
		col.Distinct(rh)
		col.Label(fmt.Sprintf("goroutines:%d", g))
		if undef {
			col.Label("all-execute-unsupported-encodings")
		}
		if noIO {
			col.Label("machines-without-io-device")
		}
		if col.WantSample(rh) {
			col.Sample(rh, map[string]any{"goroutines": g, "reps": reps, "first_program": cases[0]})
		}
	})
}

// c10Observers: BIT b,(HL) and BIT b,(IX+d) (bits 5/3 come from an internal register on silicon), SCF / CCF
// (bits 5/3 depend on whether the previous instruction changed F on silicon), LD A,R / LD A,I (P/V), each
// followed by PUSH AF so that F also lands in memory.
var c10Observers = [][]uint8{
	{0xCB, 0x46, 0xF5}, {0xCB, 0x7E, 0xF5}, {0xCB, 0x5E, 0xF5}, {0xDD, 0xCB, 0x01, 0x6E, 0xF5}, {0xFD, 0xCB, 0xFF, 0x56, 0xF5},
	{0x37, 0xF5}, {0x3F, 0xF5}, {0xED, 0x5F, 0xF5}, {0xED, 0x57, 0xF5}, {0x00, 0xCB, 0x46, 0xF5}, {0x00, 0x37, 0xF5},
}

// TestC10Boundary: for every implemented encoding, a CPU rebuilt right after the instruction - with a
// request pending that the next Step accepts, or with none - continues exactly like the original.
// This is where a hidden latch set by one instruction and consumed by the next Step would show.
func TestC10Boundary(t *testing.T) {
	col := stats.New("C10")
	col.Sub = "boundary"
	defer finish(t, col)
	col.Rule = "boundary: every encoding of the model (936 = the 930 the pinned tree supports + 6 undocumented RETN mirrors, which are skipped where a tree does not support them; enumerated) x rapid-drawn state: one Step, then {no request, NMI, maskable request valid for the mode with IFF1 forced on or left alone} is raised, " +
		"a new CPU is built from States + request + memory (with and without the HALT indication) and both run 3 more Steps; non-trivial = request accepted right after the instruction"
	a, b := &soupRunner{b: bus.New()}, &soupRunner{b: bus.New()}
	focus := -1
	rapid.Check(t, func(t *rapid.T) {
		d := drawStep(t, false)
		kind := rapid.IntRange(0, 3).Draw(t, "request")
		for ei := range allEncodings {
			if focus >= 0 && ei != focus {
				continue
			}
			e := &allEncodings[ei]
			code := e.bytes(d.ops)
			c := soupCase{St: d.st, Code: toInts(code), MemSeed: d.memSeed ^ uint64(ei)<<40, IOSeed: d.ioSeed, Fill: d.fill, IOFill: d.ioFill, Steps: 4}
			switch kind {
			case 1:
				c.Intr = []soupIntr{{AtStep: 1, NMI: true}}
			case 2, 3:
				var data []int
				switch d.st.IM {
				case 0:
					data = []int{0xC7 | int(d.ops[1]&0x38)}
				case 2:
					data = []int{int(d.ops[2])}
				}
				c.Intr = []soupIntr{{AtStep: 1, Data: data}}
				if kind == 3 {
					c.St.IFF1, c.St.IFF2 = true, true
				}
			}
			// what follows the instruction is an "observer": an instruction whose outcome would expose state kept
			// outside States (undocumented flag sources, latches): it is placed wherever the instruction leaves PC
			a.load(&c)
			if _, _, _, p := a.stepOnce(&c, 0); p != nil {
				continue
			}
			obs := c10Observers[int(stats.Hash(d.memSeed, uint64(ei))%uint64(len(c10Observers)))]
			for i, bb := range obs {
				c.Actions = append(c.Actions, soupAction{AtStep: 1, Kind: "poke", Addr: a.cpu.PC + uint16(i), Val: int(bb)})
			}
			a.load(&c)
			var full soupTrace
			a.runAll(&c, 0, &full)
			col.Eval(1)
			if full.panic != nil {
				continue
			}
			if msg := c10Clone(a, b, &c, 1, &full); msg != "" {
				focus = ei
				violation(t, "C10", "det", c10Case{Soup: c, Snapshot: 1}, "clone continues exactly like the original", e.name+": "+msg)
			}
			if len(full.pend) >= 2 && len(c.Intr) > 0 && !full.pend[1] {
				col.Distinct(stats.Hash(uint64(ei), stateHash(&c.St), uint64(kind)))
				col.Label("request-accepted-right-after-instruction")
			}
		}
	})
}

// TestC10Constructors: requests built by the package's constructors are independent values - what one
// CPU does with its request never changes what another CPU (or a later request) sees.
func TestC10Constructors(t *testing.T) {
	col := stats.New("C10")
	col.Sub = "constructors"
	defer finish(t, col)
	if env.Shard != 0 {
		return // deterministic enumeration: one shard does it
	}
	run := func(req *z80.Interrupt, im int, memSeed uint64) (z80.States, uint64) {
		r := &soupRunner{b: bus.New()}
		r.b.Reset(memSeed, 1, -1, -1)
		r.cpu = z80.CPU{Memory: r.b, IO: r.b}
		r.cpu.PC, r.cpu.SP, r.cpu.IM, r.cpu.IFF1, r.cpu.IFF2 = 0x4000, 0x9000, im, true, true
		r.cpu.IR.Hi = 0x77
		r.cpu.Interrupt = req
		r.cpu.Step()
		r.cpu.Step()
		return r.cpu.States, logHash(r.b.Log)
	}
	for b := 0; b < 256; b++ {
		for _, seed := range []uint64{env.Seed, env.Seed + 77} {
			// reference results with hand-built requests
			w0s, w0l := run(&z80.Interrupt{Type: z80.IMType, Data: []uint8{uint8(b)}}, 0, seed)
			w2s, w2l := run(&z80.Interrupt{Type: z80.IMType, Data: []uint8{uint8(b)}}, 2, seed)
			// another CPU consumes constructor-built requests carrying the same byte in every mode ...
			run(z80.IM2Interrupt(uint8(b)), 2, seed^1)
			run(z80.IM0Interrupt(uint8(b)), 0, seed^2)
			run(z80.IM2Interrupt(uint8(b)), 0, seed^3)
			// ... and constructor-built requests must still behave like the hand-built ones
			g0s, g0l := run(z80.IM0Interrupt(uint8(b)), 0, seed)
			g2s, g2l := run(z80.IM2Interrupt(uint8(b)), 2, seed)
			col.Eval(2)
			col.DistinctN(2)
			if g0s != w0s || g0l != w0l {
				violation(t, "C10", "det", map[string]any{"constructor": "IM0Interrupt", "byte": b, "seed": seed}, "same as a hand-built request",
					fmt.Sprintf("IM0Interrupt(%#02x) behaves differently after other CPUs used requests with the same byte", b))
			}
			if g2s != w2s || g2l != w2l {
				violation(t, "C10", "det", map[string]any{"constructor": "IM2Interrupt", "byte": b, "seed": seed}, "same as a hand-built request",
					fmt.Sprintf("IM2Interrupt(%#02x) behaves differently after other CPUs used requests with the same byte", b))
			}
		}
	}
	col.Rule = "constructors: for all 256 bytes, IM0Interrupt(b) / IM2Interrupt(b) accepted by a fresh CPU after other CPUs consumed constructor-built requests with the same byte must behave like hand-built requests"
	col.Sample(1, map[string]any{"constructor": "IM2Interrupt", "byte": 255})
}

// kindMem wraps one of the bundled memory types (or a plain array) for TestC10MemoryKinds.
type arrMem struct{ m [65536]uint8 }

func (a *arrMem) Get(x uint16) uint8    { return a.m[x] }
func (a *arrMem) Set(x uint16, v uint8) { a.m[x] = v }

// TestC10MemoryKinds: "equal memory" means memories that return the same byte at every address. The same
// program on a sparse MapMemory (only the program bytes are in the map, everything else is the type's
// default 0xC7), on a dense MapMemory, on a 64 KiB DumbMemory and on a plain array must run alike.
func TestC10MemoryKinds(t *testing.T) {
	col := stats.New("C10")
	col.Sub = "memkinds"
	defer finish(t, col)
	col.Rule = "memkinds: byte-soup programs over a memory whose other cells all hold 0xC7, run on a sparse MapMemory, a dense MapMemory, a DumbMemory and a plain array: same States after every Step, same contents at the end"
	dense := make(z80.DumbMemory, 65536)
	arr := &arrMem{}
	rapid.Check(t, func(t *rapid.T) {
		c := genSoup(t, 16, 40)
		genSoupIntr(t, &c, 1)
		sparse := z80.MapMemory{}
		full := z80.MapMemory{}
		for i := range dense {
			dense[i] = 0xC7
			arr.m[i] = 0xC7
			full[uint16(i)] = 0xC7
		}
		for i, b := range c.Code {
			a := c.St.PC + uint16(i)
			sparse[a], full[a], dense[a], arr.m[a] = uint8(b), uint8(b), uint8(b), uint8(b)
		}
		mems := []z80.Memory{sparse, full, dense, arr}
		names := []string{"sparse MapMemory", "dense MapMemory", "DumbMemory", "array"}
		cpus := make([]z80.CPU, len(mems))
		ios := make([]*bus.Rec, len(mems))
		for i := range cpus {
			ios[i] = bus.New()
			ios[i].Reset(1, c.IOSeed, 0, c.IOFill)
			cpus[i] = z80.CPU{Memory: mems[i], IO: ios[i]}
			eng.ToCPU(&c.St, &cpus[i])
		}
		col.Eval(1)
		for s := 0; s < c.Steps; s++ {
			for i := range cpus {
				for _, it := range c.Intr {
					if it.AtStep == s {
						if it.NMI {
							cpus[i].Interrupt = z80.NMIInterrupt()
						} else {
							cpus[i].Interrupt = &z80.Interrupt{Type: z80.IMType, Data: toBytes(it.Data)}
						}
					}
				}
				if p := eng.SafeStep(&cpus[i]); p != nil {
					if i == 0 {
						col.Label("discarded:step-panics")
						return
					}
					violation(t, "C10", "det", c10Case{Soup: c}, "same run on every memory that returns the same bytes", fmt.Sprintf("Step %d panics on %s only: %v", s+1, names[i], p))
				}
				if i > 0 && cpus[i].States != cpus[0].States {
					g, w := stFromStates(cpus[i].States), stFromStates(cpus[0].States)
					violation(t, "C10", "det", c10Case{Soup: c}, "same run on every memory that returns the same bytes",
						fmt.Sprintf("Step %d on %s differs from %s: %s", s+1, names[i], names[0], fmtStateDiff(&g, &w)))
				}
			}
		}
		for a := 0; a < 65536; a++ {
			v := mems[0].Get(uint16(a))
			for i := 1; i < len(mems); i++ {
				if mems[i].Get(uint16(a)) != v {
					violation(t, "C10", "det", c10Case{Soup: c}, "same contents at the end", fmt.Sprintf("mem[%04x] = %02x on %s, %02x on %s", a, mems[i].Get(uint16(a)), names[i], v, names[0]))
				}
			}
		}
		h := stateHash(&c.St)
		for _, b := range c.Code {
			h = stats.Hash(h, uint64(b))
		}
		col.Distinct(h)
	})
}
