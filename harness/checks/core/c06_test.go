package core

import (
	"encoding/json"
	"fmt"
	"testing"

	"github.com/koron-go/z80/verifharness/eng"
	"github.com/koron-go/z80/verifharness/ref"
	"github.com/koron-go/z80/verifharness/stats"
	"pgregory.net/rapid"
)

// C06 — interrupt requests are accepted, refused, dispatched and retired per
// Z80 rules.

// On acceptance Steps everything belongs to C06; on other Steps only the
// flip-flops, the pending request and the handler notifications do (what the
// program instruction itself does is C01's business).
var c06AcceptKinds = map[string]bool{eng.KState: true, eng.KIff: true, eng.KFlags: true, eng.KMemImg: true, eng.KAccess: true,
	eng.KPortOut: true, eng.KIntr: true, eng.KPanic: true}
var c06OtherKinds = map[string]bool{eng.KIff: true, eng.KIntr: true, eng.KPanic: true}

func c06Claimed(o *lockStep, requestPending bool) *eng.Disc {
	kinds := c06OtherKinds
	if requestPending {
		// the primary expectation was an acceptance (or a refusal): the whole Step is C06's
		kinds = c06AcceptKinds
	}
	for i := range o.discs {
		if kinds[o.discs[i].Kind] {
			return &o.discs[i]
		}
	}
	return nil
}

// one scripted event of a history
type c06Event struct {
	Kind string `json:"kind"`           // "step" | "nmi" | "int"
	Code []int  `json:"code,omitempty"` // step: bytes poked at PC before stepping
	Data []int  `json:"data,omitempty"` // int: request data
	// During > 0 (nmi, int): the request is not set by the host between Steps but raised by a device callback at
	// the During-th bus access of the following Step (which may itself be the acknowledge of an earlier request)
	During int `json:"during,omitempty"`
}

type c06Case struct {
	St      ref.State  `json:"state"`
	MemSeed uint64     `json:"memseed"`
	Fill    int        `json:"fill"`
	Parked  bool       `json:"parked"`
	Events  []c06Event `json:"events"`
}

func toBytes(a []int) []uint8 {
	b := make([]uint8, len(a))
	for i, x := range a {
		b[i] = uint8(x)
	}
	return b
}

func toInts(a []uint8) []int {
	b := make([]int, len(a))
	for i, x := range a {
		b[i] = int(x)
	}
	return b
}

type c06Result struct {
	msg      string
	known    map[string]int
	accepted int
	refused  int
	maxDepth int
	variants map[string]int
	skipped  bool
}

// c06Play runs a history; stops at the first claimed discrepancy.
func c06Play(rig *lockRig, c *c06Case) c06Result {
	res := c06Result{known: map[string]int{}, variants: map[string]int{}}
	rig.init(c.St, c.MemSeed, c.MemSeed^0x77, c.Fill, -1)
	if c.Parked {
		rig.poke(c.St.PC, 0x76)
		rig.parked = true
	}
	depth := 0
	for i, ev := range c.Events {
		switch ev.Kind {
		case "nmi":
			if ev.During > 0 {
				rig.raiseDuring(ev.During, ref.Request{NMI: true})
			} else {
				rig.raise(ref.Request{NMI: true})
			}
			continue
		case "int":
			if ev.During > 0 {
				rig.raiseDuring(ev.During, ref.Request{Data: toBytes(ev.Data)})
			} else {
				rig.raise(ref.Request{Data: toBytes(ev.Data)})
			}
			continue
		}
		for k, b := range ev.Code {
			rig.poke(rig.ms.PC+uint16(k), uint8(b))
		}
		pending := rig.mReq != nil
		o := rig.step()
		if o.skipped {
			res.skipped = true
			return res
		}
		if d := c06Claimed(&o, pending); d != nil {
			res.msg = fmt.Sprintf("event %d (%s): %s: %s", i, o.in.Class, d.Kind, d.Msg)
			return res
		}
		if len(o.discs) > 0 {
			// a discrepancy that is not C06's: the two sides have diverged, end without verdict
			res.skipped = true
			return res
		}
		if o.known != "" {
			res.known[o.known]++
		}
		if o.variant != "" {
			res.variants[o.variant]++
		}
		if o.raisedDuring && o.accepted {
			res.variants["device-raises-request-during-acknowledge"]++
		}
		if o.accepted {
			res.accepted++
			depth++
			if depth > res.maxDepth {
				res.maxDepth = depth
			}
		}
		if o.refused {
			res.refused++
		}
		if (o.in.RetN > 0 || o.in.RetI > 0) && depth > 0 {
			depth--
		}
	}
	return res
}

func init() {
	replayers["intr"] = func(prop string, raw json.RawMessage) (string, error) {
		var c c06Case
		if err := json.Unmarshal(raw, &c); err != nil {
			return "", err
		}
		r := c06Play(newLockRig(), &c)
		return r.msg, nil
	}
}

var c06Known = map[string]string{
	sigIm0: "mode-0 acceptance runs the supplied instruction as if stored at PC (return address / PC len bytes too far, bytes visible as data, writes onto them dropped)",
}

func c06Account(col *stats.Collector, r *c06Result) {
	for k, n := range r.known {
		for i := 0; i < n; i++ {
			col.Known(k, c06Known[k])
		}
	}
	for k, n := range r.variants {
		col.LabelN("variant:"+k, int64(n))
	}
}

// Part A: the complete control-bit matrix x data shapes, one acceptance Step each.
func TestC06Matrix(t *testing.T) {
	col := stats.New("C06")
	col.Sub = "matrix"
	defer finish(t, col)
	col.Rule = "matrix: {NMI, maskable} x IM{0,1,2} x IFF1 x IFF2 x {running, parked on HALT} enumerated completely, x data shapes (mode 0: RST p for all 8 p, CALL nn, NOP, INC B, LD A,n one of ED 4A / ED 52 / DD 09 / FD 23 / CB xx / ED 44 / DD 21 nn / 09 / 2F and one memory-operand instruction (ADD A,(HL), INC (HL), LD A,(HL), LD (HL),A, ADD A,(IX+d), RLC (HL), LD (HL),n, LD A,(nn), LD (nn),A, PUSH AF, DEC (IY+d), CP (HL)), half of them with the operand a whole number of pages away from PC; " +
		"mode 1: empty and junk data; mode 2: all 128 even vectors) x rapid-drawn I, PC, SP (edges, wrap), registers and memory; one Step each, compared with the interrupt model " +
		"(push, vector fetch, IFF1/IFF2, request consumed or kept, no program instruction on acceptance, program instruction on refusal); non-trivial = request accepted; distinct by hash(controls, data, state)"
	rig := newLockRig()
	var focus *c06Case
	rapid.Check(t, func(t *rapid.T) {
		d := drawStep(t, false)
		prog := rapid.SampledFrom([][]int{{0x00}, {0x04}, {0x3E, 0x55}, {0xFB}, {0xF3}, {0xED, 0x4D}, {0xED, 0x45}, {0x76}}).Draw(t, "programInstr")
		run := func(c *c06Case, tag uint64) {
			if focus != nil {
				c = focus
			}
			r := c06Play(rig, c)
			col.Eval(1)
			c06Account(col, &r)
			if r.msg != "" {
				cc := *c
				focus = &cc
				violation(t, "C06", "intr", c, "interrupt model", r.msg)
			}
			if r.skipped {
				col.Label("no-verdict")
				return
			}
			if r.accepted > 0 {
				col.Label("accepted")
				h := stats.Hash(tag, stateHash(&c.St), c.MemSeed)
				col.Distinct(h)
				if col.WantSample(h) {
					col.Sample(h, *c)
				}
			} else {
				col.Label("refused")
			}
		}
		for ctl := 0; ctl < 48; ctl++ {
			st := d.st
			st.IM = ctl % 3
			st.IFF1 = ctl/3&1 != 0
			st.IFF2 = ctl/6&1 != 0
			parked := ctl/12&1 != 0
			nmi := ctl/24&1 != 0
			st.Halt = parked
			var shapes [][]int
			switch {
			case nmi:
				shapes = [][]int{nil, {int(d.ops[0])}}
			case st.IM == 0:
				for p := 0; p < 8; p++ {
					shapes = append(shapes, []int{0xC7 | p<<3})
				}
				shapes = append(shapes, []int{0xCD, int(d.ops[1]), int(d.ops[2])}, []int{0x00}, []int{0x04}, []int{0x3E, int(d.ops[0])})
				// prefixed instructions (every byte comes from the device)
				shapes = append(shapes, [][]int{{0xED, 0x4A}, {0xED, 0x52}, {0xDD, 0x09}, {0xFD, 0x23}, {0xCB, 0x00 | int(d.ops[0])&0x3F}, {0xED, 0x44}, {0xDD, 0x21, int(d.ops[1]), int(d.ops[2])}, {0x09}, {0x2F}}[int(d.memSeed>>32)%9])
				// instructions with a memory operand
				shapes = append(shapes, [][]int{{0x86}, {0x34}, {0x7E}, {0x77}, {0xDD, 0x86, int(d.ops[0])}, {0xCB, 0x06}, {0x36, int(d.ops[1])}, {0x3A, int(d.ops[1]), int(d.ops[2])},
					{0x32, int(d.ops[1]), int(d.ops[2])}, {0xF5}, {0xFD, 0x35, int(d.ops[0])}, {0xBE}}[int(d.memSeed>>36)%12])
			case st.IM == 1:
				shapes = [][]int{nil, {int(d.ops[0]), int(d.ops[1])}}
			default:
				for v := 0; v < 256; v += 2 {
					shapes = append(shapes, []int{v})
				}
			}
			for si, data := range shapes {
				ev := c06Event{Kind: "int", Data: data}
				if nmi {
					ev = c06Event{Kind: "nmi"}
				}
				cst := st
				if st.IM == 0 && !nmi && si == len(shapes)-1 && d.memSeed>>41&1 == 0 {
					// the operand lies a whole number of pages away from PC (or right on it)
					hl := st.PC + uint16(d.memSeed>>42&3)<<8 + uint16(d.memSeed>>44&1)
					cst.H, cst.L = uint8(hl>>8), uint8(hl)
					cst.IX, cst.IY = hl-uint16(int16(int8(d.ops[0]))), hl-uint16(int16(int8(d.ops[0])))
				}
				c := c06Case{St: cst, MemSeed: d.memSeed, Fill: d.fill, Parked: parked,
					Events: []c06Event{ev, {Kind: "step", Code: prog}}}
				if parked {
					c.Events[1].Code = nil // the HALT stays where the CPU is parked
				}
				if (d.memSeed>>20+uint64(si))%4 == 0 {
					// while this request is acknowledged (or refused) a memory-mapped device raises another one
					ev2 := c06Event{Kind: "nmi", During: 1 + int(d.memSeed>>24)%4}
					if d.memSeed>>28&1 == 0 {
						ev2 = c06Event{Kind: "int", During: ev2.During}
						if d.memSeed>>29&1 == 0 {
							ev2.Data = []int{int(d.ops[1]) &^ 1}
						}
					}
					c.Events = []c06Event{c.Events[0], ev2, c.Events[1], {Kind: "step", Code: []int{0x00}}}
					if parked {
						c.Events[3].Code = nil
					}
				}
				run(&c, uint64(ctl)<<16|uint64(si))
				if focus != nil {
					return
				}
			}
		}
	})
}

// Part B: histories (rapid state machine) mixing EI, DI, RETN, RETI, IM n, HALT,
// LD A,I, stack traffic and requests raised at any time, nesting to depth >= 3.
func TestC06Histories(t *testing.T) {
	col := stats.New("C06")
	col.Sub = "histories"
	defer finish(t, col)
	col.Rule = "histories: rapid state machine; actions = step with the next instruction chosen by the action and placed at the current PC (EI, DI, RETN, RETI, IM 0/1/2, HALT, LD A,I, LD A,R, PUSH/POP AF, NOP, INC A, LD I,A), " +
		"raise NMI, raise maskable request with data valid for the current mode, replace a pending request; after every Step the emulator is compared with the interrupt model " +
		"(flip-flops, pending request, handler notifications, and the complete Step on acceptance); both legal timings after EI are accepted; " +
		"non-trivial = at least one request accepted and one refused, or nesting depth >= 2; distinct by hash(history)"
	rig := newLockRig()
	instrs := [][]int{{0xFB}, {0xFB}, {0xF3}, {0xED, 0x45}, {0xED, 0x4D}, {0xED, 0x46}, {0xED, 0x56}, {0xED, 0x5E}, {0x76},
		{0xED, 0x57}, {0xED, 0x5F}, {0xF5}, {0xF1}, {0x00}, {0x3C}, {0xED, 0x47}, {0xFB}, {0xED, 0x4D},
		{0xED, 0x5D}, {0xED, 0x55}, {0xED, 0x7D}} // undocumented mirrors of RETN: a tree that does not support them ends the history without verdict
	rapid.Check(t, func(t *rapid.T) {
		d := drawStep(t, false)
		c := c06Case{St: d.st, MemSeed: d.memSeed, Fill: d.fill}
		rig.init(c.St, c.MemSeed, c.MemSeed^0x77, c.Fill, -1)
		depth, maxDepth, accepted, refused := 0, 0, 0, 0
		var hist uint64
		dead := false
		intData := func(t *rapid.T) []int {
			switch rig.ms.IM {
			case 0:
				k := rapid.IntRange(0, 14).Draw(t, "im0shape")
				switch {
				case k >= 12:
					return rapid.SampledFrom([][]int{{0xED, 0x4A}, {0xED, 0x52}, {0xDD, 0x09}, {0xFD, 0x23}, {0xCB, 0x07}, {0xED, 0x44}, {0xFD, 0x21, 0x34, 0x12}, {0x19}, {0x08},
						{0x86}, {0x34}, {0x77}, {0xDD, 0x7E, 0x01}, {0xF5}, {0xF1}, {0x36, 0x99}}).Draw(t, "im0prefixed")
				case k < 8:
					return []int{0xC7 | k<<3}
				case k == 8:
					return []int{0xCD, int(rapid.Uint8().Draw(t, "lo")), int(rapid.Uint8().Draw(t, "hi"))}
				case k == 9:
					return []int{0x00}
				case k == 10:
					return []int{0x04}
				}
				return []int{0x3E, int(rapid.Uint8().Draw(t, "n"))}
			case 1:
				return nil
			}
			return []int{int(rapid.Uint8().Draw(t, "vector")) &^ 1}
		}
		t.Repeat(map[string]func(*rapid.T){
			"step": func(t *rapid.T) {
				if dead {
					return
				}
				code := rapid.SampledFrom(instrs).Draw(t, "instr")
				c.Events = append(c.Events, c06Event{Kind: "step", Code: code})
				for k, b := range code {
					rig.poke(rig.ms.PC+uint16(k), uint8(b))
				}
				pending := rig.mReq != nil
				o := rig.step()
				col.Eval(1)
				if o.skipped {
					dead = true
					return
				}
				if dc := c06Claimed(&o, pending); dc != nil {
					violation(t, "C06", "intr", c, "interrupt model", fmt.Sprintf("event %d (%s): %s: %s", len(c.Events)-1, o.in.Class, dc.Kind, dc.Msg))
				}
				if len(o.discs) > 0 {
					dead = true
					return
				}
				if o.known != "" {
					col.Known(o.known, c06Known[o.known])
				}
				if o.variant != "" {
					col.Label("variant:" + o.variant)
				}
				if o.raisedDuring {
					col.Label("request-raised-by-device-during-step")
					if o.accepted {
						col.Label("request-raised-by-device-during-acknowledge")
					}
				}
				hist = stats.Hash(hist, uint64(len(code)), uint64(code[0]))
				if o.accepted {
					accepted++
					depth++
					if depth > maxDepth {
						maxDepth = depth
					}
					col.Label("accept:" + o.in.Class)
				}
				if o.refused {
					refused++
				}
				if (o.in.RetN > 0 || o.in.RetI > 0) && depth > 0 {
					depth--
				}
			},
			"nmi": func(t *rapid.T) {
				if dead {
					return
				}
				c.Events = append(c.Events, c06Event{Kind: "nmi"})
				rig.raise(ref.Request{NMI: true})
				hist = stats.Hash(hist, 0xAA)
			},
			"int": func(t *rapid.T) {
				if dead {
					return
				}
				data := intData(t)
				c.Events = append(c.Events, c06Event{Kind: "int", Data: data})
				rig.raise(ref.Request{Data: toBytes(data)})
				hist = stats.Hash(hist, 0xBB, uint64(len(data)))
			},
			"raisedByDevice": func(t *rapid.T) {
				if dead {
					return
				}
				ev := c06Event{Kind: "nmi", During: rapid.IntRange(1, 5).Draw(t, "atAccess")}
				if rapid.Bool().Draw(t, "maskable") {
					ev.Kind, ev.Data = "int", intData(t)
					rig.raiseDuring(ev.During, ref.Request{Data: toBytes(ev.Data)})
				} else {
					rig.raiseDuring(ev.During, ref.Request{NMI: true})
				}
				c.Events = append(c.Events, ev)
				hist = stats.Hash(hist, 0xCC, uint64(ev.During))
			},
			"": func(t *rapid.T) {},
		})
		if dead {
			col.Label("history-ended-without-verdict")
		}
		col.Label(fmt.Sprintf("max-nesting:%d", min(maxDepth, 4)))
		if (accepted > 0 && refused > 0) || maxDepth >= 2 {
			h := stats.Hash(hist, stateHash(&c.St), c.MemSeed)
			col.Distinct(h)
			if col.WantSample(h) && len(c.Events) <= 40 {
				col.Sample(h, c)
			}
		}
		if accepted > 0 && refused > 0 {
			col.Label("accepted-and-refused")
		}
	})
}

// Part C: across all implemented encodings the flip-flops change only through EI / DI / RETN
// (RETI: either) and the RETN / RETI handlers are notified by RETN / RETI only.
func TestC06Encodings(t *testing.T) {
	p := newStepProp("C06", eng.KIff, eng.KIntr)
	p.col.Sub = "encodings"
	defer finish(t, p.col)
	p.col.Rule = "encodings: every implemented encoding x rapid-drawn pre-state, one Step: IFF1/IFF2/IM change exactly as the model says (EI, DI, RETN, IM n only) and the RETN/RETI handlers are " +
		"notified exactly once by RETN/RETI and never by anything else"
	rapid.Check(t, p.property(false))
}
