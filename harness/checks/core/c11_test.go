package core

import (
	"encoding/hex"
	"encoding/json"
	"fmt"
	"testing"

	"github.com/koron-go/z80"
	"github.com/koron-go/z80/verifharness/bus"
	"github.com/koron-go/z80/verifharness/eng"
	"github.com/koron-go/z80/verifharness/ref"
	"github.com/koron-go/z80/verifharness/stats"
	"pgregory.net/rapid"
)

// C11 — FD-prefixed instructions do to IY exactly what DD-prefixed ones do to
// IX. Metamorphic, no model: DD form from S versus FD form from swap(S).

type c11Case struct {
	Bytes   string    `json:"bytes"` // the DD form as laid out at PC
	St      ref.State `json:"state"`
	MemSeed uint64    `json:"memseed"`
	IOSeed  uint64    `json:"ioseed"`
	Fill    int       `json:"fill"`
	IOFill  int       `json:"iofill"`
	Perturb uint16    `json:"perturb"` // XORed into the other index register for the non-interference run
}

type c11Rig struct {
	b   *bus.Rec
	cpu z80.CPU
}

type c11Run struct {
	post ref.State
	log  []bus.Access
	pan  any
	// seen: what a device saw in the other index register (IY during a DD form, IX during an FD form) at one of
	// the bus accesses of the Step, when it was not what the register held before the Step
	seen string
}

func (r *c11Rig) exec(c *c11Case, st ref.State, code []uint8) c11Run {
	r.b.Reset(c.MemSeed, c.IOSeed, c.Fill, c.IOFill)
	for i, x := range code {
		r.b.Poke(st.PC+uint16(i), x)
	}
	r.cpu = z80.CPU{Memory: r.b, IO: r.b}
	eng.ToCPU(&st, &r.cpu)
	var out c11Run
	if len(code) > 0 && (code[0] == 0xDD || code[0] == 0xFD) {
		// "neither form ever reads or writes the other index register": not even for the duration of the instruction
		r.b.Hook = func(n int, _ bus.Access) {
			if out.seen != "" {
				return
			}
			if code[0] == 0xDD && r.cpu.IY != st.IY {
				out.seen = fmt.Sprintf("at its bus access #%d the DD form has IY=%04x (it was %04x before the Step)", n, r.cpu.IY, st.IY)
			}
			if code[0] == 0xFD && r.cpu.IX != st.IX {
				out.seen = fmt.Sprintf("at its bus access #%d the FD form has IX=%04x (it was %04x before the Step)", n, r.cpu.IX, st.IX)
			}
		}
	}
	out.pan = eng.SafeStep(&r.cpu)
	r.b.Hook = nil
	out.post = eng.FromCPU(&r.cpu)
	out.log = append([]bus.Access(nil), r.b.Log...)
	return out
}

func swapXY(s ref.State) ref.State {
	s.IX, s.IY = s.IY, s.IX
	return s
}

// c11Check returns (message, excluded): excluded = a data access touches the
// address of the prefix byte, which legitimately differs between the two runs.
func (r *c11Rig) check(c *c11Case, code []uint8) (string, bool) {
	dd := append([]uint8(nil), code...)
	fd := append([]uint8(nil), code...)
	dd[0], fd[0] = 0xDD, 0xFD
	a := r.exec(c, c.St, dd)
	if a.pan != nil {
		return fmt.Sprint("Step panicked: ", a.pan), false
	}
	pc0 := c.St.PC
	for i, x := range a.log {
		if i > 0 && (x.K == bus.Read || x.K == bus.Write) && x.Addr == pc0 {
			return "", true
		}
	}
	b := r.exec(c, swapXY(c.St), fd)
	if b.pan != nil {
		return fmt.Sprint("Step (FD form) panicked: ", b.pan), false
	}
	for i, x := range b.log {
		if i > 0 && (x.K == bus.Read || x.K == bus.Write) && x.Addr == pc0 {
			return "", true
		}
	}
	if a.seen != "" {
		return a.seen, false
	}
	if b.seen != "" {
		return b.seen, false
	}
	if pb := swapXY(b.post); pb != a.post {
		in := ref.Info{FMask: 0xff}
		ds := eng.StateDiff(&pb, &a.post, nil, &in)
		m := "states differ"
		if len(ds) > 0 {
			m = ds[0].Msg
		}
		return "FD form from swapped state (got) vs DD form (want): " + m, false
	}
	if len(a.log) != len(b.log) {
		return fmt.Sprintf("access sequences differ: FD %s, DD %s", eng.FmtLog(b.log), eng.FmtLog(a.log)), false
	}
	for i := range a.log {
		x, y := a.log[i], b.log[i]
		if i == 0 && x.K == bus.Read && y.K == bus.Read && x.Addr == pc0 && y.Addr == pc0 {
			continue // the prefix byte itself
		}
		if x != y {
			return fmt.Sprintf("access sequences differ at #%d: FD %s, DD %s", i, eng.FmtLog(b.log), eng.FmtLog(a.log)), false
		}
	}
	// non-interference: the other index register is neither read nor written
	if c.Perturb != 0 {
		s2 := c.St
		s2.IY ^= c.Perturb
		a2 := r.exec(c, s2, dd)
		w := a.post
		w.IY = s2.IY
		if a.post.IY != c.St.IY {
			return fmt.Sprintf("DD form changed IY: %04x -> %04x", c.St.IY, a.post.IY), false
		}
		if a2.pan != nil || a2.post != w || !eng.SameSeq(a2.log, a.log) {
			return fmt.Sprintf("DD form depends on IY (IY=%04x vs %04x give different outcomes)", c.St.IY, s2.IY), false
		}
		s3 := swapXY(c.St)
		s3.IX ^= c.Perturb
		b2 := r.exec(c, s3, fd)
		w = b.post
		w.IX = s3.IX
		if b.post.IX != swapXY(c.St).IX {
			return fmt.Sprintf("FD form changed IX: %04x -> %04x", swapXY(c.St).IX, b.post.IX), false
		}
		if b2.pan != nil || b2.post != w || !eng.SameSeq(b2.log, b.log) {
			return fmt.Sprintf("FD form depends on IX (IX=%04x vs %04x give different outcomes)", swapXY(c.St).IX, s3.IX), false
		}
	}
	return "", false
}

func init() {
	replayers["mirror"] = func(prop string, raw json.RawMessage) (string, error) {
		var c c11Case
		if err := json.Unmarshal(raw, &c); err != nil {
			return "", err
		}
		code, err := hex.DecodeString(c.Bytes)
		if err != nil {
			return "", err
		}
		r := &c11Rig{b: bus.New()}
		m, _ := r.check(&c, code)
		return m, nil
	}
}

func TestC11(t *testing.T) {
	col := stats.New("C11")
	col.Sub = "mirror"
	defer finish(t, col)
	col.Rule = "all 256 second bytes after DD/FD (DD / FD themselves - a further prefix, not an opcode of the table - only followed by NOPs) and all 256 fourth bytes after DDCB/FDCB, enumerated, " +
		"x rapid-drawn pre-states with independent IX, IY, displacement, registers, flags, memory, 1/3 aliased; oracle = metamorphic: FD form from swap(S) == swap(DD form from S) " +
		"with identical access sequence except the prefix byte, re-running with the other index register perturbed changes nothing else, and at every bus access of the Step a device finds the other index register as it was; " +
		"cases where a data access hits the prefix byte's own address are excluded and counted; non-trivial = encoding implemented by the reference table and touching the index register; distinct by hash(bytes, state)"
	// which encodings use the index register (for the non-trivial rule)
	uses := map[string]bool{}
	for op := 0; op < 256; op++ {
		var s ref.State
		in := ref.Step(&s, &probeBus{[]uint8{0xDD, uint8(op), 0, 0, 0}})
		if in.Implemented && in.UsesIndex {
			uses[fmt.Sprintf("%02x", op)] = true
		}
		s = ref.State{}
		in = ref.Step(&s, &probeBus{[]uint8{0xDD, 0xCB, 0, uint8(op), 0}})
		if in.Implemented {
			uses[fmt.Sprintf("cb%02x", op)] = true
		}
	}
	col.LabelN("index-using-encodings-per-prefix", int64(len(uses)))
	rig := &c11Rig{b: bus.New()}
	focus := ""
	rapid.Check(t, func(t *rapid.T) {
		d := drawStep(t, true)
		pert := rapid.Uint16Range(1, 0xffff).Draw(t, "perturb")
		run := func(key string, code []uint8) {
			if focus != "" && focus != key {
				return
			}
			c := c11Case{St: d.st, MemSeed: d.memSeed, IOSeed: d.ioSeed, Fill: d.fill, IOFill: d.ioFill, Perturb: pert}
			msg, excl := rig.check(&c, code)
			col.Eval(1)
			if excl {
				col.Label("excluded:data-access-on-prefix-byte")
				return
			}
			if msg != "" {
				c.Bytes = hex.EncodeToString(code)
				focus = key
				violation(t, "C11", "mirror", c, "IX<->IY mirror", msg)
			}
			if uses[key] {
				h := stats.Hash(stats.Hash(uint64(code[1]), uint64(code[3])), stateHash(&d.st), uint64(d.ops[0])|uint64(d.ops[1])<<8, d.memSeed)
				col.Distinct(h)
				if col.WantSample(h) {
					c.Bytes = hex.EncodeToString(code)
					col.Sample(h, c)
				}
			} else {
				col.Label("trivial:not-an-index-instruction")
			}
		}
		for op := 0; op < 256; op++ {
			if op == 0xDD || op == 0xFD {
				// a further prefix, not an opcode of the table. What a tree makes of a prefix chain is its own business
				// (swallow two bytes as invalid, un-fetch the second prefix, run the chain in one Step), but with a
				// plain NOP as the third byte every one of these treats DD <prefix> 00 and FD <prefix> 00 alike
				run(fmt.Sprintf("%02x", op), []uint8{0xDD, uint8(op), 0x00, 0x00, 0x00})
				continue
			}
			if op != 0xCB {
				run(fmt.Sprintf("%02x", op), []uint8{0xDD, uint8(op), d.ops[0], d.ops[1], d.ops[2]})
			}
			run(fmt.Sprintf("cb%02x", op), []uint8{0xDD, 0xCB, d.ops[0], uint8(op), d.ops[1]})
		}
		if d.aliased {
			col.Label("aliased")
		}
	})
}
