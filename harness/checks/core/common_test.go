package core

import (
	"encoding/json"
	"fmt"
	"io"
	"log"
	"os"
	"path/filepath"
	"sort"
	"sync/atomic"
	"testing"

	"github.com/koron-go/z80/verifharness/stats"
	_ "pgregory.net/rapid"
)

var env stats.Env

// logLines counts lines the emulator writes through the standard logger
// ("Z80 warn: detect invalid code ...").
var logLines int64

type countingWriter struct{}

func (countingWriter) Write(p []byte) (int, error) {
	atomic.AddInt64(&logLines, 1)
	return len(p), nil
}

func TestMain(m *testing.M) {
	env = stats.Load()
	log.SetOutput(countingWriter{})
	log.SetFlags(0)
	_ = io.Discard
	os.Exit(m.Run())
}

// finish writes the shard statistics; every TestCxx defers it.
func finish(t testing.TB, col *stats.Collector) {
	if err := col.Write(env); err != nil {
		t.Errorf("HARNESS: cannot write stats: %v", err)
	}
}

// violation records a failing case and fails the test.
type failer interface {
	Fatalf(format string, args ...any)
}

func violation(t failer, prop, engine string, c any, expect, got string) {
	stats.WriteViolation(env, stats.Violation{Property: prop, Engine: engine, Case: c, Expect: expect, Got: got})
	t.Fatalf("VIOLATION-CANDIDATE %s engine=%s expect=%s got=%s", prop, engine, expect, got)
}

// replayFiles lists the replay cases of a property (VERIF_REPLAY_DIR/<ID>/*.json
// or the single file VERIF_REPLAY_FILE).
func replayFiles(prop string) []string {
	if f := os.Getenv("VERIF_REPLAY_FILE"); f != "" {
		return []string{f}
	}
	dir := os.Getenv("VERIF_REPLAY_DIR")
	if dir == "" {
		return nil
	}
	m, _ := filepath.Glob(filepath.Join(dir, prop, "*.json"))
	sort.Strings(m)
	return m
}

type replayDoc struct {
	Property string          `json:"property"`
	Engine   string          `json:"engine"`
	Case     json.RawMessage `json:"case"`
	Expect   string          `json:"expect"`
	Got      string          `json:"got"`
}

func loadReplay(path string) (replayDoc, error) {
	var d replayDoc
	b, err := os.ReadFile(path)
	if err != nil {
		return d, err
	}
	if err := json.Unmarshal(b, &d); err != nil {
		return d, fmt.Errorf("%s: %v", path, err)
	}
	return d, nil
}

// replayers maps engine name -> function re-running one stored case; it
// returns "" when the case passes and a description otherwise.
var replayers = map[string]func(prop string, c json.RawMessage) (string, error){}

// TestReplay re-runs stored cases without rapid. Selected property comes from
// VERIF_PROP.
func TestReplay(t *testing.T) {
	prop := os.Getenv("VERIF_PROP")
	files := replayFiles(prop)
	n := 0
	for _, f := range files {
		d, err := loadReplay(f)
		if err != nil {
			t.Errorf("HARNESS: %v", err)
			continue
		}
		if prop != "" && d.Property != prop && os.Getenv("VERIF_REPLAY_FILE") == "" {
			continue
		}
		r, ok := replayers[d.Engine]
		if !ok {
			t.Errorf("HARNESS: %s: unknown engine %q", f, d.Engine)
			continue
		}
		msg, err := r(d.Property, d.Case)
		if err != nil {
			t.Errorf("HARNESS: %s: %v", f, err)
			continue
		}
		n++
		if msg != "" {
			fmt.Printf("REPLAY-FAIL property=%s file=%s %s\n", d.Property, f, msg)
			t.Fail()
		}
	}
	fmt.Printf("REPLAYED %d\n", n)
}

// stateView / fmtStateDiff: readable difference of two states.
type stateView = refState

func fmtStateDiff(g, w *stateView) string {
	in := refInfoAll
	ds := engStateDiff(g, w, &in)
	s := ""
	for _, d := range ds {
		s += d.Kind + ": " + d.Msg + " "
	}
	return s
}

// safely runs f and returns the value of a panic raised by the code under test.
func safely(f func()) (p any) {
	defer func() { p = recover() }()
	f()
	return nil
}
