package core

import (
	"encoding/json"
	"fmt"
	"math/bits"
	"runtime"
	"sync"
	"sync/atomic"
	"testing"

	"github.com/koron-go/z80"
	"github.com/koron-go/z80/verifharness/ref"
	"github.com/koron-go/z80/verifharness/stats"
)

// C03 — 16-bit arithmetic is exact for every operand pair and carry.

const (
	r16BC = iota
	r16DE
	r16HL
	r16SP
	r16IX
	r16IY
)

var r16Names = [...]string{"BC", "DE", "HL", "SP", "IX", "IY"}

const (
	op16ADD = iota
	op16ADC
	op16SBC
	op16INC
	op16DEC
)

type enc16 struct {
	name string
	code []uint8
	op   int
	dst  int
	src  int
}

func c03Encodings() (arith, incdec []enc16) {
	for p := 0; p < 4; p++ {
		src := [4]int{r16BC, r16DE, r16HL, r16SP}[p]
		arith = append(arith, enc16{fmt.Sprintf("ADD HL,%s", r16Names[src]), []uint8{uint8(0x09 | p<<4)}, op16ADD, r16HL, src})
		sx, sy := src, src
		if p == 2 {
			sx, sy = r16IX, r16IY
		}
		arith = append(arith, enc16{fmt.Sprintf("ADD IX,%s", r16Names[sx]), []uint8{0xDD, uint8(0x09 | p<<4)}, op16ADD, r16IX, sx})
		arith = append(arith, enc16{fmt.Sprintf("ADD IY,%s", r16Names[sy]), []uint8{0xFD, uint8(0x09 | p<<4)}, op16ADD, r16IY, sy})
		arith = append(arith, enc16{fmt.Sprintf("ADC HL,%s", r16Names[src]), []uint8{0xED, uint8(0x4A | p<<4)}, op16ADC, r16HL, src})
		arith = append(arith, enc16{fmt.Sprintf("SBC HL,%s", r16Names[src]), []uint8{0xED, uint8(0x42 | p<<4)}, op16SBC, r16HL, src})
		incdec = append(incdec, enc16{fmt.Sprintf("INC %s", r16Names[src]), []uint8{uint8(0x03 | p<<4)}, op16INC, src, src})
		incdec = append(incdec, enc16{fmt.Sprintf("DEC %s", r16Names[src]), []uint8{uint8(0x0B | p<<4)}, op16DEC, src, src})
	}
	incdec = append(incdec,
		enc16{"INC IX", []uint8{0xDD, 0x23}, op16INC, r16IX, r16IX}, enc16{"DEC IX", []uint8{0xDD, 0x2B}, op16DEC, r16IX, r16IX},
		enc16{"INC IY", []uint8{0xFD, 0x23}, op16INC, r16IY, r16IY}, enc16{"DEC IY", []uint8{0xFD, 0x2B}, op16DEC, r16IY, r16IY})
	return
}

func set16(c *z80.CPU, r int, v uint16) {
	switch r {
	case r16BC:
		c.BC.Hi, c.BC.Lo = uint8(v>>8), uint8(v)
	case r16DE:
		c.DE.Hi, c.DE.Lo = uint8(v>>8), uint8(v)
	case r16HL:
		c.HL.Hi, c.HL.Lo = uint8(v>>8), uint8(v)
	case r16SP:
		c.SP = v
	case r16IX:
		c.IX = v
	case r16IY:
		c.IY = v
	}
}

// wide16 is the wide-integer definition of the 16-bit add/sub flags.
func wide16(op int, a, b uint16, f uint8) (uint16, uint8) {
	cin := uint32(f & 1)
	switch op {
	case op16ADD:
		sum := uint32(a) + uint32(b)
		r := uint16(sum)
		nf := f&(ref.FS|ref.FZ|ref.FPV) | uint8(r>>8)&0x28
		if (a&0xfff)+(b&0xfff) > 0xfff {
			nf |= ref.FH
		}
		if sum > 0xffff {
			nf |= ref.FC
		}
		return r, nf
	case op16ADC:
		sum := uint32(a) + uint32(b) + cin
		r := uint16(sum)
		nf := uint8(r>>8) & (ref.FS | 0x28)
		if r == 0 {
			nf |= ref.FZ
		}
		if uint32(a&0xfff)+uint32(b&0xfff)+cin > 0xfff {
			nf |= ref.FH
		}
		if s := int32(int16(a)) + int32(int16(b)) + int32(cin); s > 32767 || s < -32768 {
			nf |= ref.FPV
		}
		if sum > 0xffff {
			nf |= ref.FC
		}
		return r, nf
	default:
		r := uint16(uint32(a) - uint32(b) - cin)
		nf := uint8(r>>8)&(ref.FS|0x28) | ref.FN
		if r == 0 {
			nf |= ref.FZ
		}
		if uint32(a&0xfff) < uint32(b&0xfff)+cin {
			nf |= ref.FH
		}
		if s := int32(int16(a)) - int32(int16(b)) - int32(cin); s > 32767 || s < -32768 {
			nf |= ref.FPV
		}
		if uint32(a) < uint32(b)+cin {
			nf |= ref.FC
		}
		return r, nf
	}
}

// c03Mem: flat memory whose cells around the instruction are read-sensitive - the first read of a cell within one point
// delivers its byte, every further read something else (C05: each instruction byte is read once; a handler that looks
// at its own opcode again, or at the bytes in front of it, must not get away with it).
type c03Mem struct {
	m   [65536]uint8
	gen uint32
	cnt [64]uint32 // generation stamp of the first read of cells 0x00E0..0x011F
}

func (f *c03Mem) Get(a uint16) uint8 {
	if i := a - 0x00E0; i < 64 {
		if f.cnt[i] == f.gen {
			return ^f.m[a] ^ 0x5A
		}
		f.cnt[i] = f.gen
	}
	return f.m[a]
}
func (f *c03Mem) Set(a uint16, v uint8) { f.m[a] = v }

var c03Pre1 = [4]uint8{0xDD, 0xFD, 0xED, 0x3E}
var c03Pre2 = [4]uint8{0xFD, 0xCB, 0xDD, 0x10}

type c03Rig struct {
	m    c03Mem
	cpus [2]z80.CPU // ping-pong: each point runs on a struct copy of the CPU value that ran the previous one
	cur  int
	c    *z80.CPU
	base z80.States
}

func newC03Rig(seed uint64) *c03Rig {
	r := &c03Rig{}
	r.cpus[0].Memory, r.cpus[1].Memory = &r.m, &r.m
	r.c = &r.cpus[0]
	h := func(i int) uint16 { return uint16(stats.Hash(seed, 0xc03, uint64(i))) }
	st := &r.base
	st.AF.Hi = uint8(h(0))
	st.BC.SetU16(h(1))
	st.DE.SetU16(h(2))
	st.HL.SetU16(h(3))
	st.Alternate.AF.SetU16(h(4))
	st.Alternate.BC.SetU16(h(5))
	st.Alternate.DE.SetU16(h(6))
	st.Alternate.HL.SetU16(h(7))
	st.IX, st.IY, st.SP = h(8), h(9), h(10)
	st.IR.Hi, st.IR.Lo = uint8(h(11)), uint8(h(12))
	st.IFF1, st.IFF2, st.IM = h(13)&1 != 0, h(13)&2 != 0, int(h(13)>>2)%3
	st.PC = 0x0100
	return r
}

func (r *c03Rig) load(e *enc16) {
	for i := 0; i < 8; i++ {
		r.m.m[0x0100+i] = 0
	}
	copy(r.m.m[0x0100:], e.code)
}

// point runs one (a, b, f) point of an encoding; ok=false on mismatch.
func (r *c03Rig) point(e *enc16, a, b uint16, f uint8) bool {
	// ping-pong: run on a struct copy of the CPU value that ran the previous point, and scribble over the
	// previous one, so that anything cached inside a CPU that refers back to the struct it was copied
	// from is exposed
	prev := &r.cpus[r.cur]
	r.cur ^= 1
	r.cpus[r.cur] = *prev // the copy lives at another address than the value it was copied from
	prev.BC.SetU16(^b)
	prev.DE.SetU16(^b)
	prev.HL.SetU16(^a)
	prev.AF.Lo = ^f
	c := &r.cpus[r.cur]
	r.c = c
	// what follows the instruction in memory, and what stands in front of it (a byte that looks like a prefix but is
	// none: the operand of LD A,0FDh, the displacement of DJNZ -3), varies with the operands (it must not matter)
	r.m.m[0x0100+len(e.code)] = uint8(a) ^ uint8(b>>8) ^ f
	if b&3 == 0 {
		r.m.m[0x00FF] = c03Pre1[(a^b>>3)&3]
		r.m.m[0x00FE] = c03Pre2[(a>>2^b>>2)&3]
	}
	if (a+b*3+uint16(f))&2047 == 0 {
		// history: this CPU value has just executed a prefix in front of an opcode that has no indexed form (whatever
		// the tree makes of DD 00 / FD 00 / DD DD 00); all public state is overwritten afterwards
		r.m.m[0x00F0], r.m.m[0x00F1], r.m.m[0x00F2], r.m.m[0x00F3] = [2]uint8{0xDD, 0xFD}[a>>7&1], [2]uint8{0x00, 0xDD}[b>>9&1], 0x00, 0x00
		c.States = r.base
		c.PC = 0x00F0
		r.m.gen++
		c.Step()
	}
	r.m.gen++
	c.States = r.base
	c.AF.Lo = f
	set16(c, e.src, b)
	set16(c, e.dst, a) // dst last: doubling forms use a for both
	if e.src == e.dst {
		b = a
	}
	exp := c.States
	var res uint16
	nf := f
	switch e.op {
	case op16INC:
		res = a + 1
	case op16DEC:
		res = a - 1
	default:
		res, nf = wide16(e.op, a, b, f)
	}
	c.Step()
	switch e.dst {
	case r16BC:
		exp.BC.Hi, exp.BC.Lo = uint8(res>>8), uint8(res)
	case r16DE:
		exp.DE.Hi, exp.DE.Lo = uint8(res>>8), uint8(res)
	case r16HL:
		exp.HL.Hi, exp.HL.Lo = uint8(res>>8), uint8(res)
	case r16SP:
		exp.SP = res
	case r16IX:
		exp.IX = res
	case r16IY:
		exp.IY = res
	}
	exp.AF.Lo = nf
	exp.PC = 0x0100 + uint16(len(e.code))
	exp.IR.Lo = c.IR.Lo
	return c.States == exp
}

type c03Case struct {
	Enc  string `json:"enc"`
	A    int    `json:"a"`
	B    int    `json:"b"`
	F    int    `json:"f"`
	Seed uint64 `json:"seed"`
}

func c03Describe(r *c03Rig, e *enc16, a, b uint16, f uint8) string {
	r.point(e, a, b, f)
	if e.src == e.dst {
		b = a
	}
	res, nf := a, f
	switch e.op {
	case op16INC:
		res = a + 1
	case op16DEC:
		res = a - 1
	default:
		res, nf = wide16(e.op, a, b, f)
	}
	g := eng16(r.c, e.dst)
	return fmt.Sprintf("%s a=%04x b=%04x f=%02x: got %s=%04x F=%02x PC=%04x, want %04x F=%02x (and nothing else changed)",
		e.name, a, b, f, r16Names[e.dst], g, r.c.AF.Lo, r.c.PC, res, nf)
}

func eng16(c *z80.CPU, r int) uint16 {
	switch r {
	case r16BC:
		return c.BC.U16()
	case r16DE:
		return c.DE.U16()
	case r16HL:
		return c.HL.U16()
	case r16SP:
		return c.SP
	case r16IX:
		return c.IX
	}
	return c.IY
}

func init() {
	replayers["alu16"] = func(prop string, raw json.RawMessage) (string, error) {
		var p c03Case
		if err := json.Unmarshal(raw, &p); err != nil {
			return "", err
		}
		ar, id := c03Encodings()
		for _, l := range [][]enc16{ar, id} {
			for i := range l {
				if l[i].name == p.Enc {
					r := newC03Rig(p.Seed)
					r.load(&l[i])
					// the enumeration runs every point on a copy of the CPU value that ran the previous one
					r.point(&l[i], ^uint16(p.A), ^uint16(p.B), ^uint8(p.F))
					if !r.point(&l[i], uint16(p.A), uint16(p.B), uint8(p.F)) {
						return c03Describe(r, &l[i], uint16(p.A), uint16(p.B), uint8(p.F)), nil
					}
					return "", nil
				}
			}
		}
		return "", fmt.Errorf("unknown encoding %q", p.Enc)
	}
}

// structured set S: all 16-bit values built from nibbles in {0,1,7,8,F}
func c03S() []uint16 {
	nib := []uint16{0, 1, 7, 8, 0xF}
	var s []uint16
	for _, a := range nib {
		for _, b := range nib {
			for _, c := range nib {
				for _, d := range nib {
					s = append(s, a<<12|b<<8|c<<4|d)
				}
			}
		}
	}
	return s
}

func TestC03(t *testing.T) {
	col := stats.New("C03")
	col.Sub = "arith16"
	defer finish(t, col)
	arith, incdec := c03Encodings()

	// oracle cross-check: wide-integer definition vs bit-serial adder
	for i := uint64(0); i < 1000000; i++ {
		h := stats.Hash(env.Seed, i)
		a, b, f := uint16(h), uint16(h>>16), uint8(h>>32)
		r1, f1 := wide16(op16ADD, a, b, f)
		r2, f2 := ref.Add16(a, b, f)
		r3, f3 := wide16(op16ADC, a, b, f)
		r4, f4 := ref.Adc16(a, b, f)
		r5, f5 := wide16(op16SBC, a, b, f)
		r6, f6 := ref.Sbc16(a, b, f)
		if r1 != r2 || f1 != f2 || r3 != r4 || f3 != f4 || r5 != r6 || f5 != f6 {
			t.Fatalf("HARNESS: oracles disagree at a=%04x b=%04x f=%02x", a, b, f)
		}
	}
	col.Note("wide-integer and bit-serial 16-bit oracles agree on 1e6 hashed points")

	type fail struct {
		c   c03Case
		msg string
	}
	var mu sync.Mutex
	var first *fail
	var stop int32
	report := func(r *c03Rig, e *enc16, a, b uint16, f uint8) {
		mu.Lock()
		if first == nil {
			first = &fail{c03Case{e.name, int(a), int(b), int(f), env.Seed}, c03Describe(r, e, a, b, f)}
		}
		mu.Unlock()
		atomic.StoreInt32(&stop, 1)
	}
	type job func(r *c03Rig) (ev, nt int64)
	jobs := make(chan job, 256)
	var wg sync.WaitGroup
	for w := 0; w < runtime.GOMAXPROCS(0); w++ {
		wg.Add(1)
		go func() {
			defer wg.Done()
			r := newC03Rig(env.Seed)
			var ev, nt int64
			for j := range jobs {
				if atomic.LoadInt32(&stop) != 0 {
					continue
				}
				e, n := j(r)
				ev += e
				nt += n
			}
			col.Eval(ev)
			col.DistinctN(nt)
		}()
	}
	ntOf := func(e *enc16, a, b uint16, f uint8) bool {
		if e.op >= op16INC {
			return true
		}
		_, nf := wide16(e.op, a, b, f)
		r, _ := wide16(e.op, a, b, f)
		return nf&(ref.FH|ref.FC) != 0 || (e.op != op16ADD && nf&ref.FPV != 0) || r == 0
	}

	// (i) operand pairs x carry, other F bits 0x00 / 0xFE by parity of a^b
	full := env.Thorough()
	aSpan := 256 // quick: 2^24 pairs per encoding ...
	for ei := range arith {
		e := &arith[ei]
		if e.src == e.dst {
			continue
		}
		span := aSpan
		if !full && e.src == r16BC && e.dst == r16HL {
			span = 4096 // ... and 2^28 pairs for the three HL,BC forms
		}
		a0 := 0
		if !full {
			a0 = int(stats.Hash(env.Seed, uint64(ei), 1) % uint64(65536-span))
		} else {
			span = 65536
		}
		for lo := a0; lo < a0+span; lo += 64 {
			lo, hi := lo, lo+64
			jobs <- func(r *c03Rig) (ev, nt int64) {
				r.load(e)
				for a := lo; a < hi; a++ {
					for b := 0; b < 65536; b++ {
						var o uint8
						if bits.OnesCount16(uint16(a)^uint16(b))&1 != 0 {
							o = 0xFE
						}
						for cin := uint8(0); cin < 2; cin++ {
							ev++
							if !r.point(e, uint16(a), uint16(b), o|cin) {
								report(r, e, uint16(a), uint16(b), o|cin)
								return
							}
						}
						if ntOf(e, uint16(a), uint16(b), o) {
							nt += 2
						}
					}
				}
				return
			}
		}
	}
	// (ii) S x S x all 256 F for every encoding
	S := c03S()
	for ei := range arith {
		e := &arith[ei]
		for i0 := 0; i0 < len(S); i0 += 25 {
			i0 := i0
			jobs <- func(r *c03Rig) (ev, nt int64) {
				r.load(e)
				for _, a := range S[i0 : i0+25] {
					for _, b := range S {
						if e.src == e.dst && b != a {
							continue
						}
						for f := 0; f < 256; f++ {
							ev++
							if !r.point(e, a, b, uint8(f)) {
								report(r, e, a, b, uint8(f))
								return
							}
						}
						if ntOf(e, a, b, 0) {
							nt += 256
						}
					}
				}
				return
			}
		}
	}
	// (iii) doubling forms and (iv) INC/DEC: all 65536 values x all 256 F
	var all16 []*enc16
	for ei := range arith {
		if arith[ei].src == arith[ei].dst {
			all16 = append(all16, &arith[ei])
		}
	}
	for ei := range incdec {
		all16 = append(all16, &incdec[ei])
	}
	for _, e := range all16 {
		e := e
		for lo := 0; lo < 65536; lo += 2048 {
			lo := lo
			jobs <- func(r *c03Rig) (ev, nt int64) {
				r.load(e)
				for a := lo; a < lo+2048; a++ {
					for f := 0; f < 256; f++ {
						ev++
						if !r.point(e, uint16(a), uint16(a), uint8(f)) {
							report(r, e, uint16(a), uint16(a), uint8(f))
							return
						}
					}
					if ntOf(e, uint16(a), uint16(a), 0) {
						nt += 256
					}
				}
				return
			}
		}
	}
	close(jobs)
	wg.Wait()
	if first != nil {
		violation(t, "C03", "alu16", first.c, "wide-integer definition", first.msg)
	}
	col.Exhaustive = full
	pairs := "all 2^32 operand pairs"
	if !full {
		pairs = "a seed-positioned slice of 2^24 operand pairs (2^28 for ADD/ADC/SBC HL,BC)"
	}
	col.Rule = "enumeration through CPU.Step: (i) " + pairs + " x carry-in for the 15 non-doubling ADD HL/IX/IY, ADC HL, SBC HL encodings, preserved F bits all-0 / all-1 by parity of a^b; " +
		"(ii) S x S (S = 625 values with nibbles in {0,1,7,8,F}) x all 256 F for all 20 encodings; (iii) doubling forms x 65536 values x 256 F; (iv) INC/DEC BC,DE,HL,SP,IX,IY x 65536 x 256 F; " +
		"oracle = wide-integer definition (cross-checked against the bit-serial adder), whole register file compared; non-trivial = carry out of bit 11 or 15, overflow, zero result, or any INC/DEC; distinct by construction"
	col.Sample(1, c03Case{"ADC HL,BC", 0x7fff, 0x0000, 0x01, env.Seed})
	col.Sample(2, c03Case{"SBC HL,SP", 0x8000, 0x0001, 0xfe, env.Seed})
	col.Sample(3, c03Case{"ADD IY,IY", 0x8888, 0x8888, 0xc4, env.Seed})
	col.Sample(4, c03Case{"DEC IX", 0x0000, 0x0000, 0xff, env.Seed})
}
