package core

import (
	"testing"

	"github.com/koron-go/z80/verifharness/eng"
	"pgregory.net/rapid"
)

// C05 — each Step makes exactly the instruction's memory and port accesses.
func TestC05Step(t *testing.T) {
	p := newStepProp("C05", eng.KAccess)
	p.col.Sub = "step"
	p.ntAccessOnly = true
	defer finish(t, p.col)
	p.col.Rule = "step: every implemented encoding (930, enumerated) x rapid-drawn pre-state, operand bytes, device data (port reads return a byte that " +
		"depends on port number and read index), 1/3 of cases with pointers aliased onto the instruction / stack / 0xFFFF; oracle = the reference " +
		"model's own access log: per-address sequence of reads and writes (hence read multiset, write multiset, read-before-write) and the ordered " +
		"port log (direction, port, value); non-trivial = the instruction makes a data or port access; distinct by hash(encoding, pre-state, operands, memory seed)"
	rapid.Check(t, p.property(false))
	p.finishClasses()
}
