package core

import (
	"testing"

	"github.com/koron-go/z80/verifharness/eng"
	"github.com/koron-go/z80/verifharness/stats"
	"pgregory.net/rapid"
)

// C05 — each Step makes exactly the instruction's memory and port accesses.
func TestC05Step(t *testing.T) {
	p := newStepProp("C05", eng.KAccess)
	p.col.Sub = "step"
	p.ntAccessOnly = true
	defer finish(t, p.col)
	p.col.Rule = "step: every encoding of the model (936 = the 930 the pinned tree supports + 6 undocumented RETN mirrors, which are skipped where a tree does not support them; enumerated) x rapid-drawn pre-state, operand bytes, device data (port reads return a byte that " +
		"depends on port number and read index), 1/3 of cases with pointers aliased onto the instruction / stack / 0xFFFF; oracle = the reference " +
		"model's own access log: per-address sequence of reads and writes (hence read multiset, write multiset, read-before-write) and the ordered " +
		"port log (direction, port, value); non-trivial = the instruction makes a data or port access; distinct by hash(encoding, pre-state, operands, memory seed)"
	rapid.Check(t, p.property(false))
	p.finishClasses()
}

// TestC05Soup: the access log of every Step of multi-Step programs (a repeating block instruction
// must re-fetch its two bytes on every repetition; nothing may be cached between Steps).
func TestC05Soup(t *testing.T) {
	col := stats.New("C05")
	col.Sub = "soup"
	defer finish(t, col)
	col.Rule = "soup: byte strings of implemented encodings (block repeats, prefix forms and relative jumps favoured) run for up to 64 Steps in lock-step with the reference model, " +
		"per-Step access logs compared; non-trivial = >= 2 Steps; distinct by hash(code, state)"
	rig := newLockRig()
	rapid.Check(t, func(t *rapid.T) {
		c := genSoup(t, 16, 64)
		if rapid.IntRange(0, 1).Draw(t, "block-first") == 0 {
			// start with a repeating block instruction so that several repetitions are certain
			op := rapid.SampledFrom([]int{0xB0, 0xB1, 0xB2, 0xB3, 0xB8, 0xB9, 0xBA, 0xBB}).Draw(t, "blockop")
			c.Code = append([]int{0xED, op}, c.Code...)
			if c.St.B == 0 && c.St.C < 2 {
				c.St.C = 5
			}
			if c.St.B == 1 {
				c.St.B = 7
			}
		}
		msg, steps, trunc, classes := soupLockstep(rig, &c, map[string]bool{eng.KAccess: true})
		col.Eval(1)
		if msg != "" {
			violation(t, "C05", "soup", c, "reference model's accesses, every Step", msg)
		}
		col.LabelN("soup-steps", int64(steps))
		if trunc {
			col.Label("soup-truncated")
		}
		reps := 0
		for _, cl := range classes {
			switch cl {
			case "LDx", "CPx", "INx", "OUTx":
				reps++
			}
		}
		if reps >= 2 {
			col.Label("block-elements>=2")
		}
		if steps >= 2 {
			h := stateHash(&c.St)
			for _, b := range c.Code {
				h = stats.Hash(h, uint64(b))
			}
			col.Distinct(h)
			if col.WantSample(h) && len(c.Code) < 30 {
				col.Sample(h, c)
			}
		}
	})
}
