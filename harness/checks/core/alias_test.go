package core

import (
	"github.com/koron-go/z80/verifharness/eng"
	"github.com/koron-go/z80/verifharness/ref"
)

type refState = ref.State

var refInfoAll = ref.Info{FMask: 0xff}

func engStateDiff(g, w *ref.State, in *ref.Info) []eng.Disc { return eng.StateDiff(g, w, nil, in) }
