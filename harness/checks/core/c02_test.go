package core

import (
	"encoding/json"
	"fmt"
	"os"
	"runtime"
	"sync"
	"sync/atomic"
	"testing"

	"github.com/koron-go/z80"
	"github.com/koron-go/z80/verifharness/ref"
	"github.com/koron-go/z80/verifharness/stats"
)

// C02 — 8-bit ALU, rotate/shift and bit instructions: exact result and flags
// for the complete cube A x operand x F, for every operand encoding.

// flatMem is a plain 64 KiB memory without logging (bulk enumerations).
type flatMem struct{ m [65536]uint8 }

func (f *flatMem) Get(a uint16) uint8    { return f.m[a] }
func (f *flatMem) Set(a uint16, v uint8) { f.m[a] = v }

// operand locations
const (
	locNone = iota
	locB
	locC
	locD
	locE
	locH
	locL
	locA
	locMemHL
	locImm
	locIXH
	locIXL
	locIYH
	locIYL
	locMemIX
	locMemIY
)

var locNames = [...]string{"-", "B", "C", "D", "E", "H", "L", "A", "(HL)", "n", "IXH", "IXL", "IYH", "IYL", "(IX+d)", "(IY+d)"}

// aluSpec computes the expected outcome of a family member.
// a = accumulator, v = operand value, f = incoming flags.
// Returns new A, new operand value, new F and the F compare mask.
type aluSpec func(a, v, f uint8) (na, nv, nf, mask uint8)

type aluEnc struct {
	name   string
	code   []uint8
	loc    int
	immIdx int  // index of the immediate byte in code (locImm)
	disp   int8 // displacement for (IX+d)/(IY+d)
	twoOp  bool // uses both A and the operand (full cube); otherwise value x F
	usesA  bool // one-operand instruction acting on A only (loc none)
	spec   aluSpec
	// reduced: an extra copy of an (IX+d)/(IY+d) encoding with another displacement; it is run on a reduced cube
	// (16 values of A x all operands x 16 F values) - the full cube is run once, with the seed-derived displacement
	reduced bool
}

func c02Encodings(seed uint64) []aluEnc {
	var out []aluEnc
	dsp := func(i int) int8 { return int8(stats.Hash(seed, uint64(i)) >> 13) }
	regLoc := [8]int{locB, locC, locD, locE, locH, locL, locMemHL, locA}
	xyLoc := map[uint8][8]int{
		0xDD: {locB, locC, locD, locE, locIXH, locIXL, locMemIX, locA},
		0xFD: {locB, locC, locD, locE, locIYH, locIYL, locMemIY, locA},
	}
	aluNames := [8]string{"ADD", "ADC", "SUB", "SBC", "AND", "XOR", "OR", "CP"}
	rotNames := [8]string{"RLC", "RRC", "RL", "RR", "SLA", "SRA", "SLL", "SRL"}
	n := 0
	next := func() int { n++; return n }
	// (a) ALU A,s
	for y := 0; y < 8; y++ {
		y := y
		spec := func(a, v, f uint8) (uint8, uint8, uint8, uint8) {
			r, nf := ref.Alu8(y, a, v, f)
			return r, v, nf, 0xff
		}
		for z := 0; z < 8; z++ {
			out = append(out, aluEnc{name: fmt.Sprintf("%s A,%s", aluNames[y], locNames[regLoc[z]]), code: []uint8{uint8(0x80 | y<<3 | z)},
				loc: regLoc[z], twoOp: true, spec: spec})
		}
		out = append(out, aluEnc{name: aluNames[y] + " A,n", code: []uint8{uint8(0xC6 | y<<3), 0}, loc: locImm, immIdx: 1, twoOp: true, spec: spec})
		for _, pfx := range []uint8{0xDD, 0xFD} {
			for z := 0; z < 8; z++ {
				l := xyLoc[pfx][z]
				e := aluEnc{name: fmt.Sprintf("%02X:%s A,%s", pfx, aluNames[y], locNames[l]), code: []uint8{pfx, uint8(0x80 | y<<3 | z)}, loc: l, twoOp: true, spec: spec}
				if z == 6 {
					e.disp = dsp(next())
					e.code = append(e.code, uint8(e.disp))
				}
				out = append(out, e)
			}
		}
	}
	// (b) INC / DEC
	for k := 0; k < 2; k++ {
		k := k
		nm := [2]string{"INC", "DEC"}[k]
		spec := func(a, v, f uint8) (uint8, uint8, uint8, uint8) {
			var r, nf uint8
			if k == 0 {
				r, nf = ref.Inc8(v, f)
			} else {
				r, nf = ref.Dec8(v, f)
			}
			return a, r, nf, 0xff
		}
		for yy := 0; yy < 8; yy++ {
			out = append(out, aluEnc{name: nm + " " + locNames[regLoc[yy]], code: []uint8{uint8(0x04 | yy<<3 | k)}, loc: regLoc[yy], spec: spec})
		}
		for _, pfx := range []uint8{0xDD, 0xFD} {
			for _, yy := range []int{4, 5, 6} {
				l := xyLoc[pfx][yy]
				e := aluEnc{name: fmt.Sprintf("%02X:%s %s", pfx, nm, locNames[l]), code: []uint8{pfx, uint8(0x04 | yy<<3 | k)}, loc: l, spec: spec}
				if yy == 6 {
					e.disp = dsp(next())
					e.code = append(e.code, uint8(e.disp))
				}
				out = append(out, e)
			}
		}
	}
	// (c) accumulator-only
	for y := 0; y < 4; y++ {
		y := y
		out = append(out, aluEnc{name: [4]string{"RLCA", "RRCA", "RLA", "RRA"}[y], code: []uint8{uint8(0x07 | y<<3)}, usesA: true,
			spec: func(a, v, f uint8) (uint8, uint8, uint8, uint8) { r, nf := ref.RotA(y, a, f); return r, v, nf, 0xff }})
	}
	out = append(out, aluEnc{name: "DAA", code: []uint8{0x27}, usesA: true,
		spec: func(a, v, f uint8) (uint8, uint8, uint8, uint8) { r, nf := ref.Daa(a, f); return r, v, nf, 0xff }})
	out = append(out, aluEnc{name: "CPL", code: []uint8{0x2F}, usesA: true,
		spec: func(a, v, f uint8) (uint8, uint8, uint8, uint8) {
			r := ^a
			return r, v, f&(ref.FS|ref.FZ|ref.FPV|ref.FC) | ref.FH | ref.FN | r&0x28, 0xff
		}})
	out = append(out, aluEnc{name: "SCF", code: []uint8{0x37}, usesA: true,
		spec: func(a, v, f uint8) (uint8, uint8, uint8, uint8) {
			return a, v, f&(ref.FS|ref.FZ|ref.FPV) | ref.FC, 0xff &^ 0x28
		}})
	out = append(out, aluEnc{name: "CCF", code: []uint8{0x3F}, usesA: true,
		spec: func(a, v, f uint8) (uint8, uint8, uint8, uint8) {
			nf := f & (ref.FS | ref.FZ | ref.FPV)
			if f&ref.FC != 0 {
				nf |= ref.FH
			} else {
				nf |= ref.FC
			}
			return a, v, nf, 0xff &^ 0x28
		}})
	out = append(out, aluEnc{name: "NEG", code: []uint8{0xED, 0x44}, usesA: true,
		spec: func(a, v, f uint8) (uint8, uint8, uint8, uint8) { r, nf := ref.Sub8(0, a, 0); return r, v, nf, 0xff }})
	// (d) CB rotates / shifts, (e) BIT / RES / SET
	for y := 0; y < 8; y++ {
		y := y
		rot := func(a, v, f uint8) (uint8, uint8, uint8, uint8) { r, nf := ref.Rot(y, v, f); return a, r, nf, 0xff }
		bitR := func(a, v, f uint8) (uint8, uint8, uint8, uint8) { return a, v, c02BitFlags(y, v, f), 0xff }
		bitM := func(a, v, f uint8) (uint8, uint8, uint8, uint8) { return a, v, c02BitFlags(y, v, f), 0xff &^ 0x28 }
		res := func(a, v, f uint8) (uint8, uint8, uint8, uint8) { return a, v &^ (1 << uint(y)), f, 0xff }
		set := func(a, v, f uint8) (uint8, uint8, uint8, uint8) { return a, v | 1<<uint(y), f, 0xff }
		for z := 0; z < 8; z++ {
			l := regLoc[z]
			b := bitR
			if z == 6 {
				b = bitM
			}
			out = append(out,
				aluEnc{name: fmt.Sprintf("%s %s", rotNames[y], locNames[l]), code: []uint8{0xCB, uint8(y<<3 | z)}, loc: l, spec: rot},
				aluEnc{name: fmt.Sprintf("BIT %d,%s", y, locNames[l]), code: []uint8{0xCB, uint8(0x40 | y<<3 | z)}, loc: l, spec: b},
				aluEnc{name: fmt.Sprintf("RES %d,%s", y, locNames[l]), code: []uint8{0xCB, uint8(0x80 | y<<3 | z)}, loc: l, spec: res},
				aluEnc{name: fmt.Sprintf("SET %d,%s", y, locNames[l]), code: []uint8{0xCB, uint8(0xC0 | y<<3 | z)}, loc: l, spec: set})
		}
		for _, pfx := range []uint8{0xDD, 0xFD} {
			l := xyLoc[pfx][6]
			for x, sp := range []aluSpec{rot, bitM, res, set} {
				d := dsp(next())
				nm := [4]string{rotNames[y], fmt.Sprintf("BIT %d,", y), fmt.Sprintf("RES %d,", y), fmt.Sprintf("SET %d,", y)}[x]
				out = append(out, aluEnc{name: fmt.Sprintf("%02X:%s %s", pfx, nm, locNames[l]), code: []uint8{pfx, 0xCB, uint8(d), uint8(x<<6 | y<<3 | 6)},
					loc: l, disp: d, spec: sp})
			}
		}
	}
	// (f) RLD / RRD
	out = append(out, aluEnc{name: "RRD", code: []uint8{0xED, 0x67}, loc: locMemHL, twoOp: true,
		spec: func(a, v, f uint8) (uint8, uint8, uint8, uint8) {
			na := a&0xf0 | v&0x0f
			return na, a<<4 | v>>4, f&ref.FC | c02Logic(na), 0xff
		}})
	out = append(out, aluEnc{name: "RLD", code: []uint8{0xED, 0x6F}, loc: locMemHL, twoOp: true,
		spec: func(a, v, f uint8) (uint8, uint8, uint8, uint8) {
			na := a&0xf0 | v>>4
			return na, v<<4 | a&0x0f, f&ref.FC | c02Logic(na), 0xff
		}})
	// every displacement-carrying encoding once more with each edge displacement
	base := len(out)
	for i := 0; i < base; i++ {
		if out[i].loc != locMemIX && out[i].loc != locMemIY {
			continue
		}
		for _, d := range []int8{0, 1, 0x7F, -128, -1, -127} {
			if d == out[i].disp {
				continue
			}
			e := out[i]
			e.code = append([]uint8(nil), e.code...)
			e.code[2] = uint8(d) // DD op d  /  DD CB d op: the displacement is the third byte either way
			e.disp = d
			e.reduced = true
			e.name = fmt.Sprintf("%s [d=%d]", e.name, d)
			out = append(out, e)
		}
	}
	return out
}

func c02BitFlags(y int, v, f uint8) uint8 {
	nf := f&ref.FC | ref.FH | v&0x28
	if v&(1<<uint(y)) == 0 {
		nf |= ref.FZ | ref.FPV
	} else if y == 7 {
		nf |= ref.FS
	}
	return nf
}

func c02Logic(r uint8) uint8 {
	nf := r & (ref.FS | 0x28)
	if r == 0 {
		nf |= ref.FZ
	}
	if ref.Parity(r) {
		nf |= ref.FPV
	}
	return nf
}

// aluTable is the oracle in table form, built from the bit-serial definitions
// once per encoding family member: index [f][a][v] collapses to what the spec
// actually depends on, so it is built lazily per (f) slice.
type aluPoint struct {
	Enc  string `json:"enc"`
	Code string `json:"code"`
	A    int    `json:"a"`
	V    int    `json:"v"`
	F    int    `json:"f"`
	Seed uint64 `json:"seed"`
}

const c02CodeBase = 0x0100

// c02Base builds the pre-state for an encoding: registers from the seed, data
// pointers aimed at a data cell away from the code.
func c02Base(e *aluEnc, seed uint64, ei int) (st z80.States, dataAddr uint16) {
	h := func(i int) uint16 { return uint16(stats.Hash(seed, uint64(ei), uint64(i))) }
	st.BC.SetU16(h(1))
	st.DE.SetU16(h(2))
	st.HL.SetU16(h(3))
	st.Alternate.AF.SetU16(h(4))
	st.Alternate.BC.SetU16(h(5))
	st.Alternate.DE.SetU16(h(6))
	st.Alternate.HL.SetU16(h(7))
	st.IX, st.IY, st.SP = h(8), h(9), h(10)
	st.IR.Hi, st.IR.Lo = uint8(h(11)), uint8(h(12))
	st.IFF1, st.IFF2, st.IM = h(13)&1 != 0, h(13)&2 != 0, int(h(13)>>2)%3
	st.PC = c02CodeBase
	dataAddr = h(14)
	if dataAddr >= c02CodeBase-1 && dataAddr < c02CodeBase+8 {
		dataAddr += 0x4000
	}
	switch e.loc {
	case locMemHL:
		st.HL.SetU16(dataAddr)
	case locMemIX:
		st.IX = dataAddr - uint16(int16(e.disp))
	case locMemIY:
		st.IY = dataAddr - uint16(int16(e.disp))
	}
	return
}

func c02SetLoc(c *z80.CPU, m *flatMem, e *aluEnc, dataAddr uint16, v uint8) {
	switch e.loc {
	case locB:
		c.BC.Hi = v
	case locC:
		c.BC.Lo = v
	case locD:
		c.DE.Hi = v
	case locE:
		c.DE.Lo = v
	case locH:
		c.HL.Hi = v
	case locL:
		c.HL.Lo = v
	case locA:
		c.AF.Hi = v
	case locMemHL, locMemIX, locMemIY:
		m.m[dataAddr] = v
	case locImm:
		m.m[c02CodeBase+uint16(e.immIdx)] = v
	case locIXH:
		c.IX = c.IX&0x00ff | uint16(v)<<8
	case locIXL:
		c.IX = c.IX&0xff00 | uint16(v)
	case locIYH:
		c.IY = c.IY&0x00ff | uint16(v)<<8
	case locIYL:
		c.IY = c.IY&0xff00 | uint16(v)
	}
}

func c02GetLoc(c *z80.CPU, m *flatMem, e *aluEnc, dataAddr uint16) uint8 {
	switch e.loc {
	case locB:
		return c.BC.Hi
	case locC:
		return c.BC.Lo
	case locD:
		return c.DE.Hi
	case locE:
		return c.DE.Lo
	case locH:
		return c.HL.Hi
	case locL:
		return c.HL.Lo
	case locA:
		return c.AF.Hi
	case locMemHL, locMemIX, locMemIY:
		return m.m[dataAddr]
	case locImm:
		return m.m[c02CodeBase+uint16(e.immIdx)]
	case locIXH:
		return uint8(c.IX >> 8)
	case locIXL:
		return uint8(c.IX)
	case locIYH:
		return uint8(c.IY >> 8)
	case locIYL:
		return uint8(c.IY)
	}
	return 0
}

// c02Point runs one cube point; returns "" or a mismatch description.
func c02Point(c *z80.CPU, m *flatMem, e *aluEnc, base *z80.States, dataAddr uint16, a, v, f uint8) string {
	// the CPU value is a plain struct copy of one that has executed before (see the enumeration loop):
	// anything cached inside it must not refer back to the struct it was copied from
	c.States = *base
	c.AF.Hi, c.AF.Lo = a, f
	m.m[c02CodeBase+uint16(len(e.code))] = a ^ v<<1 ^ f // the byte after the instruction varies (it must not matter)
	c02SetLoc(c, m, e, dataAddr, v)
	if e.loc == locA {
		a = v
	}
	pre := c.States
	c.Step()
	na, nv, nf, mask := e.spec(a, v, f)
	if e.loc == locA {
		// operand and accumulator are the same register
		if na == a {
			na = nv
		} else {
			nv = na
		}
	}
	if c.AF.Hi != na {
		return fmt.Sprintf("A=%02x want %02x", c.AF.Hi, na)
	}
	if (c.AF.Lo^nf)&mask != 0 {
		return fmt.Sprintf("F=%02x want %02x (mask %02x)", c.AF.Lo, nf, mask)
	}
	if e.loc != locNone {
		if g := c02GetLoc(c, m, e, dataAddr); g != nv {
			return fmt.Sprintf("%s=%02x want %02x", locNames[e.loc], g, nv)
		}
	}
	// everything else unchanged (PC past the instruction, R is C14's business)
	exp := pre
	exp.AF.Hi, exp.AF.Lo = c.AF.Hi, c.AF.Lo
	exp.PC = c02CodeBase + uint16(len(e.code))
	exp.IR.Lo = c.IR.Lo
	got := c.States
	// neutralise the operand register on both sides (already compared above)
	switch e.loc {
	case locB:
		exp.BC.Hi = got.BC.Hi
	case locC:
		exp.BC.Lo = got.BC.Lo
	case locD:
		exp.DE.Hi = got.DE.Hi
	case locE:
		exp.DE.Lo = got.DE.Lo
	case locH:
		exp.HL.Hi = got.HL.Hi
	case locL:
		exp.HL.Lo = got.HL.Lo
	case locIXH:
		exp.IX = exp.IX&0x00ff | got.IX&0xff00
	case locIXL:
		exp.IX = exp.IX&0xff00 | got.IX&0x00ff
	case locIYH:
		exp.IY = exp.IY&0x00ff | got.IY&0xff00
	case locIYL:
		exp.IY = exp.IY&0xff00 | got.IY&0x00ff
	}
	if got != exp {
		return "a register the instruction does not name changed"
	}
	return ""
}

func c02RunPoint(p aluPoint) (string, error) {
	encs := c02Encodings(p.Seed)
	for ei := range encs {
		e := &encs[ei]
		if e.name != p.Enc {
			continue
		}
		m := &flatMem{}
		first := &z80.CPU{Memory: m}
		base, da := c02Base(e, p.Seed, ei)
		copy(m.m[c02CodeBase:], e.code)
		// the enumeration runs every point on a copy of the CPU value that ran the previous one
		c02Point(first, m, e, &base, da, ^uint8(p.A), ^uint8(p.V), ^uint8(p.F))
		second := *first
		first.States = z80.States{}
		return c02Point(&second, m, e, &base, da, uint8(p.A), uint8(p.V), uint8(p.F)), nil
	}
	return "", fmt.Errorf("unknown encoding %q", p.Enc)
}

func init() {
	replayers["alu"] = func(prop string, raw json.RawMessage) (string, error) {
		var p aluPoint
		if err := json.Unmarshal(raw, &p); err != nil {
			return "", err
		}
		return c02RunPoint(p)
	}
}

func TestC02(t *testing.T) {
	col := stats.New("C02")
	col.Sub = "cube"
	defer finish(t, col)
	encs := c02Encodings(env.Seed)
	// F values enumerated: all 256 in the thorough tier; in the quick tier the 8 combinations of
	// C, H, N (the only bits any of these instructions read) x {other bits all 0, all 1, two mixed patterns}
	var fs []uint8
	if env.Thorough() || os.Getenv("VERIF_C02_SAMPLED_F") == "" {
		for f := 0; f < 256; f++ {
			fs = append(fs, uint8(f))
		}
		col.Exhaustive = true
	} else {
		for chn := 0; chn < 8; chn++ {
			b := uint8(chn&1) | uint8(chn&2) | uint8(chn&4)<<2 // C, N, H
			for _, o := range []uint8{0x00, 0xEC, 0x44 ^ uint8(env.Seed*37)&0xEC, 0xA8 ^ uint8(env.Seed*91)&0xEC} {
				fs = append(fs, b|o&0xEC)
			}
		}
	}
	col.Rule = fmt.Sprintf("complete enumeration through CPU.Step of A(256) x operand(256) x F(%d values) for two-operand forms (8 ALU ops x 25 operand encodings, RLD, RRD) and "+
		"operand(256) x F for one-operand forms (INC/DEC x 14, RLCA..RRA, DAA, CPL, SCF, CCF, NEG, 8 rotates/shifts x 10 targets, BIT/RES/SET x 8 bits x 10 targets): %d encodings; "+
		"plus every (IX+d)/(IY+d) encoding once more with each of the displacements 0, 1, 127, -128, -127, -1 on a reduced cube (about 20 values of A x all operands x 16 F); oracle = tables of the bit-serial reference ALU; result, flags under the agreed mask, written operand and every other register compared; "+
		"non-trivial = result differs from an input or F changes; points are distinct by construction", len(fs), len(encs))

	type fail struct {
		p   aluPoint
		msg string
	}
	var mu sync.Mutex
	var first *fail
	var stop int32
	type job struct{ ei, a0, a1 int }
	jobs := make(chan job, 64)
	var wg sync.WaitGroup
	for w := 0; w < runtime.GOMAXPROCS(0); w++ {
		wg.Add(1)
		go func() {
			defer wg.Done()
			m := &flatMem{}
			cpus := [2]z80.CPU{{Memory: m}, {Memory: m}}
			c := &cpus[0]
			flip := 0
			var ev, nt int64
			for j := range jobs {
				if atomic.LoadInt32(&stop) != 0 {
					continue
				}
				e := &encs[j.ei]
				base, da := c02Base(e, env.Seed, j.ei)
				for i := range e.code {
					m.m[c02CodeBase+uint16(i)] = e.code[i]
				}
				for a := j.a0; a < j.a1; a++ {
					if e.reduced && e.twoOp && a%16 != (j.ei*5)%16 && a != 0 && a != 0xff && a != 0x80 && a != 0x7f {
						continue
					}
					for v := 0; v < 256; v++ {
						if (e.loc == locA && v != a) || (e.loc == locNone && v != 0) {
							continue
						}
						for fi, f := range fs {
							if e.reduced && fi%16 != (v+a)%16 {
								continue
							}
							ev++
							// ping-pong: every point runs on a struct copy of the CPU value that ran the previous one
							flip ^= 1
							cpus[flip] = *c
							c = &cpus[flip]
							msg := c02Point(c, m, e, &base, da, uint8(a), uint8(v), f)
							if msg != "" {
								mu.Lock()
								if first == nil {
									first = &fail{aluPoint{Enc: e.name, Code: fmt.Sprintf("%x", e.code), A: a, V: v, F: int(f), Seed: env.Seed}, msg}
								}
								mu.Unlock()
								atomic.StoreInt32(&stop, 1)
								break
							}
							if c.AF.Lo != f || c.AF.Hi != uint8(a) || c02GetLoc(c, m, e, da) != uint8(v) {
								nt++
							}
						}
						if atomic.LoadInt32(&stop) != 0 {
							break
						}
					}
					if !e.twoOp && !e.usesA && e.loc != locA {
						break // one-operand form on a location other than A: A does not matter, one slice is the whole space
					}
				}
				// restore code area bytes that were used as immediates
			}
			col.Eval(ev)
			col.DistinctN(nt)
		}()
	}
	for ei := range encs {
		e := &encs[ei]
		if e.twoOp || e.usesA || e.loc == locA {
			for a0 := 0; a0 < 256; a0 += 32 {
				jobs <- job{ei, a0, a0 + 32}
			}
		} else {
			// value x F only; A fixed from the seed
			a := int(uint8(stats.Hash(env.Seed, uint64(ei), 99)))
			jobs <- job{ei, a, a + 1}
		}
	}
	close(jobs)
	wg.Wait()
	if first != nil {
		violation(t, "C02", "alu", first.p, "bit-serial reference ALU", first.p.Enc+": "+first.msg)
	}
	nred := 0
	for i := range encs {
		if encs[i].reduced {
			nred++
		}
	}
	col.LabelN("encodings", int64(len(encs)-nred))
	col.LabelN("extra-displacement-variants-on-reduced-cube", int64(nred))
	col.Sample(1, aluPoint{Enc: encs[0].name, Code: fmt.Sprintf("%x", encs[0].code), A: 0x7f, V: 0x01, F: 0x01, Seed: env.Seed})
	col.Sample(2, aluPoint{Enc: "DAA", Code: "27", A: 0x9a, V: 0, F: 0x10, Seed: env.Seed})
	col.Sample(3, aluPoint{Enc: "DD:SBC A,(IX+d)", Code: "dd9e..", A: 0x80, V: 0x7f, F: 0x01, Seed: env.Seed})
	col.Sample(4, aluPoint{Enc: "RLD", Code: "ed6f", A: 0x12, V: 0x34, F: 0xff, Seed: env.Seed})
}
