package core

import (
	"encoding/json"
	"fmt"
	"runtime"
	"sync"
	"sync/atomic"
	"testing"

	"github.com/koron-go/z80"
	"github.com/koron-go/z80/verifharness/stats"
)

// C02 on other machines: the encodings with a memory operand once more on the bundled memory types and on a
// memory with read side effects. The ALU must not care where its operand byte comes from.
//
//	short    a DumbMemory that ends before the operand's address: the operand reads as 0, the write is dropped
//	dumb     a 64 KiB DumbMemory
//	map      a MapMemory (an operand equal to the type's default 0xC7 is left absent)
//	volatile a memory-mapped register: the first read of the operand's address delivers the operand, every further
//	         read something else (C05: the operand is read once) - result and written value come from that one read

var c02Machines = []string{"short", "dumb", "map", "volatile"}

type volMem struct {
	flatMem
	addr  uint16
	reads int
}

func (m *volMem) Get(a uint16) uint8 {
	if a == m.addr {
		m.reads++
		if m.reads > 1 {
			return ^m.m[a] ^ uint8(m.reads)
		}
	}
	return m.m[a]
}

type machPoint struct {
	aluPoint
	Machine string `json:"machine"`
}

func isMemLoc(l int) bool { return l == locMemHL || l == locMemIX || l == locMemIY }

type machRig struct {
	short z80.DumbMemory
	dumb  z80.DumbMemory
	vol   volMem
	cpus  [2]z80.CPU
	flip  int
}

func newMachRig() *machRig {
	return &machRig{short: make(z80.DumbMemory, 0x0200), dumb: make(z80.DumbMemory, 65536)}
}

// point runs one cube point on the named machine.
func (r *machRig) point(machine string, e *aluEnc, base *z80.States, da uint16, a, v, f uint8) string {
	// every point runs on a struct copy of the CPU value that ran the previous one
	prev := &r.cpus[r.flip]
	r.flip ^= 1
	r.cpus[r.flip] = *prev
	c := &r.cpus[r.flip]
	c.States = *base
	c.AF.Hi, c.AF.Lo = a, f
	after := a ^ v<<1 ^ f
	var peek func() uint8
	switch machine {
	case "short":
		if da < 0x0200 {
			return "" // the operand must lie beyond the end
		}
		copy(r.short[c02CodeBase:], e.code)
		r.short[c02CodeBase+len(e.code)] = after
		c.Memory = r.short
		v = 0
		peek = func() uint8 { return r.short.Get(da) }
	case "dumb":
		copy(r.dumb[c02CodeBase:], e.code)
		r.dumb[c02CodeBase+len(e.code)] = after
		r.dumb[da] = v
		c.Memory = r.dumb
		peek = func() uint8 { return r.dumb[da] }
	case "map":
		mm := z80.MapMemory{}
		mm.Put(c02CodeBase, e.code...)
		mm[c02CodeBase+uint16(len(e.code))] = after
		if v != 0xC7 {
			mm[da] = v
		}
		c.Memory = mm
		peek = func() uint8 { return mm.Get(da) }
	default:
		copy(r.vol.m[c02CodeBase:], e.code)
		r.vol.m[c02CodeBase+uint16(len(e.code))] = after
		r.vol.m[da] = v
		r.vol.addr, r.vol.reads = da, 0
		c.Memory = &r.vol
		peek = func() uint8 { return r.vol.m[da] }
	}
	pre := c.States
	c.Step()
	na, nv, nf, mask := e.spec(a, v, f)
	if machine == "short" {
		nv = 0
	}
	if c.AF.Hi != na {
		return fmt.Sprintf("A=%02x want %02x", c.AF.Hi, na)
	}
	if (c.AF.Lo^nf)&mask != 0 {
		return fmt.Sprintf("F=%02x want %02x (mask %02x)", c.AF.Lo, nf, mask)
	}
	if g := peek(); g != nv {
		return fmt.Sprintf("%s=%02x want %02x", locNames[e.loc], g, nv)
	}
	if machine == "short" && len(r.short) != 0x0200 {
		return "the DumbMemory changed its length"
	}
	exp := pre
	exp.AF.Hi, exp.AF.Lo = c.AF.Hi, c.AF.Lo
	exp.PC = c02CodeBase + uint16(len(e.code))
	exp.IR.Lo = c.IR.Lo
	if c.States != exp {
		return "a register the instruction does not name changed"
	}
	return ""
}

func c02MachBase(e *aluEnc, seed uint64, ei int, machine string) (z80.States, uint16) {
	base, da := c02Base(e, seed, ei)
	if machine == "short" && da < 0x0200 {
		// move the operand beyond the end of the short memory
		da += 0x4000
		switch e.loc {
		case locMemHL:
			base.HL.SetU16(da)
		case locMemIX:
			base.IX = da - uint16(int16(e.disp))
		case locMemIY:
			base.IY = da - uint16(int16(e.disp))
		}
	}
	return base, da
}

func TestC02Machines(t *testing.T) {
	col := stats.New("C02")
	col.Sub = "machines"
	defer finish(t, col)
	encs := c02Encodings(env.Seed)
	col.Rule = "machines: every encoding with a memory operand ((HL), (IX+d), (IY+d)) once more on {DumbMemory ending before the operand (operand reads 0, write dropped), 64 KiB DumbMemory, MapMemory, " +
		"a memory-mapped register whose first read delivers the operand and every further read something else}: complete A x F for the short memory, 12 values of A x all operands x 16 F elsewhere; same oracle as the cube; points distinct by construction"
	type fail struct {
		p   machPoint
		msg string
	}
	var mu sync.Mutex
	var first *fail
	var stop int32
	type job struct {
		ei int
		m  string
	}
	jobs := make(chan job, 64)
	var wg sync.WaitGroup
	var nenc int64
	for w := 0; w < runtime.GOMAXPROCS(0); w++ {
		wg.Add(1)
		go func() {
			defer wg.Done()
			r := newMachRig()
			var ev, nt int64
			for j := range jobs {
				e := &encs[j.ei]
				base, da := c02MachBase(e, env.Seed, j.ei, j.m)
				for a := 0; a < 256 && atomic.LoadInt32(&stop) == 0; a++ {
					full := j.m == "short"
					if !full && a%23 != j.ei%23 && a != 0 && a != 0xff && a != 0x80 && a != 0x7f {
						continue
					}
					for v := 0; v < 256; v++ {
						if full && v != 0 {
							break
						}
						for f := 0; f < 256; f++ {
							if !full && f%16 != (v+a)%16 {
								continue
							}
							ev++
							if msg := r.point(j.m, e, &base, da, uint8(a), uint8(v), uint8(f)); msg != "" {
								mu.Lock()
								if first == nil {
									first = &fail{machPoint{aluPoint{Enc: e.name, Code: fmt.Sprintf("%x", e.code), A: a, V: v, F: f, Seed: env.Seed}, j.m}, msg}
								}
								mu.Unlock()
								atomic.StoreInt32(&stop, 1)
							}
							nt++
						}
					}
				}
			}
			col.Eval(ev)
			col.DistinctN(nt)
		}()
	}
	for ei := range encs {
		if !isMemLoc(encs[ei].loc) || encs[ei].reduced {
			continue
		}
		nenc++
		for _, m := range c02Machines {
			jobs <- job{ei, m}
		}
	}
	close(jobs)
	wg.Wait()
	if first != nil {
		violation(t, "C02", "alumach", first.p, "bit-serial reference ALU", first.p.Enc+" on "+first.p.Machine+": "+first.msg)
	}
	col.LabelN("memory-operand-encodings", nenc)
	for _, m := range c02Machines {
		col.LabelN("machine:"+m, nenc)
	}
	col.Sample(1, machPoint{aluPoint{Enc: "RLD", Code: "ed6f", A: 0x12, V: 0x34, F: 0xff, Seed: env.Seed}, "volatile"})
	col.Sample(2, machPoint{aluPoint{Enc: "CB:RLC (HL)", Code: "cb06", A: 0x00, V: 0x00, F: 0xff, Seed: env.Seed}, "short"})
}

func init() {
	replayers["alumach"] = func(prop string, raw json.RawMessage) (string, error) {
		var p machPoint
		if err := json.Unmarshal(raw, &p); err != nil {
			return "", err
		}
		encs := c02Encodings(p.Seed)
		for ei := range encs {
			e := &encs[ei]
			if e.name != p.Enc {
				continue
			}
			r := newMachRig()
			base, da := c02MachBase(e, p.Seed, ei, p.Machine)
			r.point(p.Machine, e, &base, da, ^uint8(p.A), ^uint8(p.V), ^uint8(p.F))
			return r.point(p.Machine, e, &base, da, uint8(p.A), uint8(p.V), uint8(p.F)), nil
		}
		return "", fmt.Errorf("unknown encoding %q", p.Enc)
	}
}
