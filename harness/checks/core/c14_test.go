package core

import (
	"encoding/hex"
	"fmt"
	"strings"
	"testing"

	"github.com/koron-go/z80"
	"github.com/koron-go/z80/verifharness/eng"
	"github.com/koron-go/z80/verifharness/ref"
	"github.com/koron-go/z80/verifharness/stats"
	"pgregory.net/rapid"
)

// C14 — the refresh register counts opcode fetches; I and bit 7 of R change
// only by LD. Random-state part (the enumeration over all R values follows in
// TestC14Enum).
func TestC14Step(t *testing.T) {
	p := newStepProp("C14", eng.KRefresh)
	p.col.Sub = "step"
	defer finish(t, p.col)
	p.col.Rule = "step: every implemented encoding x rapid-drawn pre-state with uniform R and edge-biased I; oracle = fetch-count rule of the reference model " +
		"(1 / 2 / DDCB,FDCB 2-or-3, bit 7 kept, LD R,A / LD I,A the only writers); "
	rapid.Check(t, p.property(false))
	p.finishClasses()
}

// TestC14Enum: every implemented encoding x all 256 starting values of R x I in
// {0x00, 0x7F, 0x80, 0xFF, drawn}; LD A,R / LD A,I additionally x IFF2 x all 256 F with the
// flags compared.
func TestC14Enum(t *testing.T) {
	col := stats.New("C14")
	col.Sub = "enum"
	defer finish(t, col)
	col.Rule = "enum: every encoding of the model (936: 930 supported by the pinned tree + 6 undocumented RETN mirrors, skipped where unsupported) x all 256 starting values of R x I in {0x00,0x7F,0x80,0xFF,drawn}, other state drawn by rapid once per round; LD A,R and LD A,I additionally x IFF2 x all 256 F " +
		"with A and all flags compared (S, Z, 5/3 from the value, H = N = 0, P/V = IFF2, C kept); soup: multi-Step programs incl. block repeats and parked HALT with R and I compared after every Step; " +
		"non-trivial = start value within 3 of the 0x7F wrap or with bit 7 set; distinct by construction within a round x hash(round state)"
	rig := newStepRig()
	focusEnc := -1
	rapid.Check(t, func(t *rapid.T) {
		d := drawStep(t, false)
		round := stateHash(&d.st)
		for ei := range allEncodings {
			if focusEnc >= 0 && ei != focusEnc {
				continue
			}
			e := &allEncodings[ei]
			code := e.bytes(d.ops)
			isLdA := len(e.pre) == 2 && e.pre[0] == 0xED && (e.pre[1] == 0x57 || e.pre[1] == 0x5F)
			for _, iv := range []uint8{0x00, 0x7F, 0x80, 0xFF, d.st.I} {
				for r := 0; r < 256; r++ {
					c := stepCase{Enc: e.name, St: d.st, MemSeed: d.memSeed, IOSeed: d.ioSeed, Fill: d.fill, IOFill: d.ioFill}
					c.St.I, c.St.R = iv, uint8(r)
					fs := []int{int(d.st.F)}
					if isLdA && iv == d.st.I {
						fs = fs[:0]
						for f := 0; f < 256; f++ {
							fs = append(fs, f)
						}
					}
					for _, f := range fs {
						for iff2 := 0; iff2 < 2; iff2++ {
							if !isLdA && iff2 == 1 {
								break
							}
							if isLdA {
								c.St.F, c.St.IFF2 = uint8(f), iff2 == 1
							}
							o := rig.run(&c, code)
							col.Eval(1)
							if o.skipped || (o.logged && !o.in.Documented) {
								continue
							}
							for _, dc := range o.discs {
								mine := dc.Kind == eng.KRefresh || dc.Kind == eng.KPanic || (isLdA && (dc.Kind == eng.KFlags || dc.Kind == eng.KState))
								if mine {
									c.Bytes = hex.EncodeToString(code)
									focusEnc = ei
									violation(t, "C14", "step", c, "fetch-count rule ("+o.in.Class+")", dc.Kind+": "+dc.Msg)
								}
							}
							if r&0x80 != 0 || r&0x7f >= 0x7c {
								col.Distinct(stats.Hash(round, uint64(ei), uint64(iv), uint64(r), uint64(f), uint64(iff2)))
							}
						}
					}
				}
			}
		}
		col.Sample(round, stepCase{Enc: "ed5f", Bytes: "ed5f", St: d.st, MemSeed: d.memSeed, Fill: d.fill, IOFill: d.ioFill})
	})
}

// TestC14Soup: R and I after every Step of multi-Step programs (block repeats +2 per repetition,
// +1 per Step spent on HALT).
func TestC14Soup(t *testing.T) {
	col := stats.New("C14")
	col.Sub = "soup"
	defer finish(t, col)
	rig := newLockRig()
	rapid.Check(t, func(t *rapid.T) {
		c := genSoup(t, 16, 200)
		if rapid.IntRange(0, 2).Draw(t, "halt-early") == 0 {
			// park on a HALT for the rest of the run
			k := rapid.IntRange(0, len(c.Code)).Draw(t, "haltAt")
			c.Code = append(append([]int{}, c.Code[:k]...), 0x76)
		}
		if rapid.IntRange(0, 2).Draw(t, "intr?") == 0 {
			// interrupt acknowledge: bit 7 of R and I stay, a mode-0 instruction counts its own fetches
			genSoupIntr(t, &c, 3)
		}
		msg, steps, trunc, classes := soupLockstep(rig, &c, map[string]bool{eng.KRefresh: true, eng.KIntr: true})
		col.Eval(1)
		if msg != "" && !strings.Contains(msg, "intr:") {
			violation(t, "C14", "soup", c, "fetch-count rule, every Step", msg)
		}
		col.LabelN("soup-steps", int64(steps))
		if trunc {
			col.Label("soup-truncated")
		}
		halts, reps := 0, 0
		for _, cl := range classes {
			switch cl {
			case "HALT":
				halts++
			case "LDx", "CPx", "INx", "OUTx":
				reps++
			}
		}
		if halts >= 2 {
			col.Label("parked-on-halt")
		}
		if reps >= 2 {
			col.Label("block-elements>=2")
		}
		if steps >= 2 {
			h := stateHash(&c.St)
			for _, b := range c.Code {
				h = stats.Hash(h, uint64(b))
			}
			col.Distinct(h)
			if col.WantSample(h) && len(c.Code) < 30 {
				col.Sample(h, c)
			}
		}
	})
}

// TestC14Pending: LD A,I / LD A,R report IFF2 in P/V also while a maskable request is pending and
// refused (IFF1 = 0, IFF2 = 1 is the state inside an NMI handler, where LD A,I is used to sample IFF2),
// and R keeps counting fetches on Steps that refuse a request.
func TestC14Pending(t *testing.T) {
	col := stats.New("C14")
	col.Sub = "pending"
	defer finish(t, col)
	rig := newLockRig()
	rapid.Check(t, func(t *rapid.T) {
		d := drawStep(t, false)
		for _, op := range []uint8{0x57, 0x5F} {
			for iff2 := 0; iff2 < 2; iff2++ {
				for f := 0; f < 256; f += 1 + int(d.ops[1]&3) {
					st := d.st
					st.IFF1, st.IFF2, st.F = false, iff2 == 1, uint8(f)
					rig.init(st, d.memSeed, d.ioSeed, d.fill, d.ioFill)
					rig.poke(st.PC, 0xED)
					rig.poke(st.PC+1, op)
					var data []uint8
					switch st.IM {
					case 0:
						data = []uint8{0xFF}
					case 2:
						data = []uint8{d.ops[0] &^ 1}
					}
					rig.raise(ref.Request{Data: data})
					o := rig.step()
					col.Eval(1)
					if o.skipped {
						continue
					}
					for _, dc := range o.discs {
						if dc.Kind == eng.KRefresh || dc.Kind == eng.KFlags || dc.Kind == eng.KState || dc.Kind == eng.KPanic {
							c := soupCase{St: st, Code: []int{0xED, int(op)}, MemSeed: d.memSeed, IOSeed: d.ioSeed, Fill: d.fill, IOFill: d.ioFill, Steps: 1,
								Intr: []soupIntr{{AtStep: 0, Data: toInts(data)}}}
							violation(t, "C14", "soup", c, "LD A,I / LD A,R with a refused request pending", dc.Kind+": "+dc.Msg)
						}
					}
					col.Distinct(stats.Hash(stateHash(&st), uint64(op)))
				}
			}
		}
	})
}

// shortBus gives the model the bounds rule of a DumbMemory of length n.
type shortBus struct {
	m []uint8
}

func (s *shortBus) Read(a uint16) uint8 {
	if int(a) >= len(s.m) {
		return 0
	}
	return s.m[a]
}
func (s *shortBus) Write(a uint16, v uint8) {
	if int(a) < len(s.m) {
		s.m[a] = v
	}
}
func (s *shortBus) In(uint8) uint8   { return 0 }
func (s *shortBus) Out(uint8, uint8) {}

// TestC14ShortMemory: opcode fetches count in R wherever they come from - also when PC is at or beyond
// the end of a short DumbMemory (which reads as 0x00 there) or a prefix is the last byte of it.
func TestC14ShortMemory(t *testing.T) {
	col := stats.New("C14")
	col.Sub = "shortmem"
	defer finish(t, col)
	if env.Shard != 0 {
		return // deterministic enumeration: one shard does it
	}
	col.Rule = "shortmem: DumbMemory of length L in {0,1,2,3,100,0x8000,0xFFFF} with the last bytes set to {00, DD, FD, ED, CB, DD CB, 3E, 21, ED B0} patterns, PC from L-3 to L+2 (and 0xFFFF), all 256 R: " +
		"three Steps each, R / I / PC compared with the reference model running under the same bounds rule"
	tails := [][]uint8{{0x00}, {0xDD}, {0xFD}, {0xED}, {0xCB}, {0xDD, 0xCB}, {0x3E}, {0x21}, {0xED, 0xB0}, {0xDD, 0x21}, {0xFD, 0xCB, 0x05}, {0x18}, {0x76}}
	for _, L := range []int{0, 1, 2, 3, 100, 0x8000, 0xFFFF} {
		for _, tail := range tails {
			for dpc := -3; dpc <= 2; dpc++ {
				pc := L + dpc
				if pc < 0 || pc > 0xFFFF {
					continue
				}
				for r0 := 0; r0 < 256; r0++ {
					dm := make(z80.DumbMemory, L)
					mm := make([]uint8, L)
					for i := range tail {
						if at := L - len(tail) + i; at >= 0 {
							dm[at], mm[at] = tail[i], tail[i]
						}
					}
					cpu := z80.CPU{Memory: dm}
					cpu.PC, cpu.SP, cpu.IR.Lo, cpu.IR.Hi = uint16(pc), 0x7000, uint8(r0), 0x3C
					cpu.BC.SetU16(2)
					st := eng.FromCPU(&cpu)
					sb := &shortBus{m: mm}
					for s := 0; s < 3; s++ {
						in := ref.Step(&st, sb)
						if !in.Implemented {
							break
						}
						if p := eng.SafeStep(&cpu); p != nil {
							break // C12's business
						}
						col.Eval(1)
						ok := cpu.IR.Lo == st.R || (in.RAlt && cpu.IR.Lo == (st.R&0x80|(st.R+1)&0x7f))
						if !ok || cpu.IR.Hi != st.I || cpu.PC != st.PC {
							c := map[string]any{"len": L, "tail": toInts(tail), "pc": pc, "r": r0, "step": s + 1}
							violation(t, "C14", "shortmem", c, "fetch-count rule on a short DumbMemory",
								fmt.Sprintf("DumbMemory len %#x tail % x PC=%04x R=%02x Step %d (%s): R=%02x I=%02x PC=%04x want R=%02x I=%02x PC=%04x",
									L, tail, pc, r0, s+1, in.Class, cpu.IR.Lo, cpu.IR.Hi, cpu.PC, st.R, st.I, st.PC))
						}
						st.R = cpu.IR.Lo
					}
				}
				col.DistinctN(256)
			}
		}
		_ = tails
	}
	col.Sample(1, map[string]any{"len": 2, "tail": []int{0xDD, 0xCB}, "pc": 0, "r": 0x7E})
}
