package core

import (
	"testing"

	"github.com/koron-go/z80/verifharness/eng"
	"pgregory.net/rapid"
)

// C14 — the refresh register counts opcode fetches; I and bit 7 of R change
// only by LD. Random-state part (the enumeration over all R values follows in
// TestC14Enum).
func TestC14Step(t *testing.T) {
	p := newStepProp("C14", eng.KRefresh)
	p.col.Sub = "step"
	defer finish(t, p.col)
	p.col.Rule = "step: every implemented encoding x rapid-drawn pre-state with uniform R and edge-biased I; oracle = fetch-count rule of the reference model " +
		"(1 / 2 / DDCB,FDCB 2-or-3, bit 7 kept, LD R,A / LD I,A the only writers); "
	rapid.Check(t, p.property(false))
	p.finishClasses()
}
