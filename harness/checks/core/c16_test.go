package core

import (
	"encoding/json"
	"fmt"
	"runtime"
	"sync"
	"testing"

	"github.com/koron-go/z80"
	"github.com/koron-go/z80/verifharness/stats"
)

// C16 — flag and register accessors touch exactly the named bits.
// Complete enumeration: 256 masks x 256 F x 256 A x {GetFlag, SetFlag,
// ResetFlag} (through GPR directly and through the methods promoted to CPU),
// the eight exported constants, and SetU16/U16/Hi/Lo for all 65536 values.

type c16Case struct {
	Op   string `json:"op"`
	Mask int    `json:"mask"`
	F    int    `json:"f"`
	A    int    `json:"a"`
	V    int    `json:"v,omitempty"`
}

func c16Flag(op string, mask, f, a uint8) string {
	// other registers get a pattern derived from the inputs so that a write
	// to the wrong field is visible
	bc := uint16(mask)<<8 | uint16(f) ^ 0x5aa5
	de := uint16(a)<<8 | uint16(mask) ^ 0xc33c
	hl := uint16(f)<<8 | uint16(a) ^ 0x0ff0
	mk := func() z80.GPR {
		var g z80.GPR
		g.AF.Hi, g.AF.Lo = a, f
		g.BC.SetU16(bc)
		g.DE.SetU16(de)
		g.HL.SetU16(hl)
		return g
	}
	anyBit := f&mask != 0
	wantF := f
	switch op {
	case "SetFlag":
		wantF = f | mask
	case "ResetFlag":
		wantF = f &^ mask
	}
	chk := func(via string, g z80.GPR, got bool) string {
		if op == "GetFlag" && got != anyBit {
			return fmt.Sprintf("%s GetFlag=%v want %v", via, got, anyBit)
		}
		if g.AF.Lo != wantF {
			return fmt.Sprintf("%s F=%02x want %02x", via, g.AF.Lo, wantF)
		}
		if g.AF.Hi != a {
			return fmt.Sprintf("%s A=%02x want %02x", via, g.AF.Hi, a)
		}
		if g.BC.U16() != bc || g.DE.U16() != de || g.HL.U16() != hl {
			return fmt.Sprintf("%s BC/DE/HL changed", via)
		}
		return ""
	}
	// through GPR
	g := mk()
	var got bool
	switch op {
	case "GetFlag":
		got = g.GetFlag(z80.Flag(mask))
	case "SetFlag":
		g.SetFlag(z80.Flag(mask))
	case "ResetFlag":
		g.ResetFlag(z80.Flag(mask))
	}
	if m := chk("GPR", g, got); m != "" {
		return m
	}
	// through CPU (promoted methods on States.GPR); alternate set and special
	// registers must stay as they were
	var cpu z80.CPU
	cpu.GPR = mk()
	cpu.Alternate = mk()
	cpu.Alternate.AF.Lo = ^f
	cpu.IX, cpu.IY, cpu.SP, cpu.PC = bc, de, hl, bc^de
	cpu.IR.Hi, cpu.IR.Lo = mask, a
	before := cpu.States
	switch op {
	case "GetFlag":
		got = cpu.GetFlag(z80.Flag(mask))
	case "SetFlag":
		cpu.SetFlag(z80.Flag(mask))
	case "ResetFlag":
		cpu.ResetFlag(z80.Flag(mask))
	}
	if m := chk("CPU", cpu.GPR, got); m != "" {
		return m
	}
	after := cpu.States
	after.GPR = before.GPR
	if after != before {
		return "CPU: state outside GPR changed"
	}
	if m := c16History(op, mask, f, a); m != "" {
		return m
	}
	// the mask spelled as a complement in the Flag type ("all flags but ..."): ^Flag(^mask) names the same bits
	g = mk()
	cm := ^z80.Flag(^mask)
	switch op {
	case "GetFlag":
		got = g.GetFlag(cm)
	case "SetFlag":
		g.SetFlag(cm)
	case "ResetFlag":
		g.ResetFlag(cm)
	}
	if m := chk("GPR, mask written as ^Flag(^m):", g, got); m != "" {
		return m
	}
	return ""
}

type nopMem struct{ code [4]uint8 }

func (m *nopMem) Get(a uint16) uint8 { return m.code[a&3] }
func (m *nopMem) Set(uint16, uint8)  {}

// c16History: the accessors act on the CPU value they are called on and on its current F, whatever that
// value has been through: it may be a struct copy of a CPU on which accessors were called before, and it
// may have executed instructions (EX AF,AF' swaps the register contents; F is still cpu.AF.Lo).
func c16History(op string, mask, f, a uint8) string {
	if (uint16(mask)*7+uint16(f)*13+uint16(a))%16 != 0 {
		return "" // one combination in 16 (every mask meets many F / A values)
	}
	anyBit := f&mask != 0
	wantF := f
	switch op {
	case "SetFlag":
		wantF = f | mask
	case "ResetFlag":
		wantF = f &^ mask
	}
	apply := func(c *z80.CPU) bool {
		switch op {
		case "GetFlag":
			return c.GetFlag(z80.Flag(mask))
		case "SetFlag":
			c.SetFlag(z80.Flag(mask))
		default:
			c.ResetFlag(z80.Flag(mask))
		}
		return false
	}
	// (a) a copy of a CPU value that has been used before
	var first z80.CPU
	first.AF.Hi, first.AF.Lo = ^a, ^f
	first.GetFlag(z80.Flag(mask))
	first.SetFlag(z80.Flag(mask & 0x55))
	first.ResetFlag(z80.Flag(mask & 0xAA))
	second := first // struct copy
	firstF := first.AF.Lo
	second.AF.Hi, second.AF.Lo = a, f
	got := apply(&second)
	if (op == "GetFlag" && got != anyBit) || second.AF.Lo != wantF || second.AF.Hi != a {
		return fmt.Sprintf("on a copy of a used CPU value: %s gives F=%02x A=%02x result=%v, want F=%02x A=%02x", op, second.AF.Lo, second.AF.Hi, got, wantF, a)
	}
	if first.AF.Lo != firstF {
		return "an accessor called on a copy changed the CPU value it was copied from"
	}
	// (b) after the CPU has executed EX AF,AF' (once, twice, three times) and EXX
	for n := 1; n <= 3; n++ {
		m := &nopMem{code: [4]uint8{0x08, 0x08, 0x08, 0xD9}}
		c := z80.CPU{Memory: m}
		c.Alternate.AF.Hi, c.Alternate.AF.Lo = 0x5A, 0xA5
		for i := 0; i < n; i++ {
			c.PC = 0
			c.Step()
		}
		c.PC = 3
		c.Step() // EXX
		c.AF.Hi, c.AF.Lo = a, f
		alt := c.Alternate
		got := apply(&c)
		if (op == "GetFlag" && got != anyBit) || c.AF.Lo != wantF || c.AF.Hi != a || c.Alternate != alt {
			return fmt.Sprintf("after %d x EX AF,AF': %s gives F=%02x A=%02x result=%v (alternate set touched: %v), want F=%02x A=%02x",
				n, op, c.AF.Lo, c.AF.Hi, got, c.Alternate != alt, wantF, a)
		}
	}
	// (c) called from inside a device callback while the CPU executes an instruction that leaves F alone
	// (IN A,(n) through the port device, LD A,(HL) through the memory): the effect is immediate there too
	for _, via := range []string{"IO.In", "Memory.Get"} {
		var c z80.CPU
		var inside string
		cb := func() uint8 {
			got := apply(&c)
			if (op == "GetFlag" && got != anyBit) || c.AF.Lo != wantF {
				inside = fmt.Sprintf("called from %s during a Step: %s gives F=%02x result=%v, want F=%02x", via, op, c.AF.Lo, got, wantF)
			}
			return ^a
		}
		if via == "IO.In" {
			c.Memory, c.IO = &nopMem{code: [4]uint8{0xDB, 0x10, 0x00, 0x00}}, cbIO(cb)
		} else {
			c.Memory = &cbMem{code: [4]uint8{0x7E, 0x00, 0x00, 0x00}, at: 0x4000, cb: cb}
			c.HL.SetU16(0x4000)
		}
		c.AF.Hi, c.AF.Lo = a, f
		c.Step()
		if inside != "" {
			return inside
		}
		if c.AF.Lo != wantF || c.AF.Hi != ^a {
			return fmt.Sprintf("%s called from %s during a Step that leaves F alone: afterwards F=%02x A=%02x, want F=%02x A=%02x", op, via, c.AF.Lo, c.AF.Hi, wantF, ^a)
		}
	}
	return ""
}

type cbIO func() uint8

func (f cbIO) In(uint8) uint8   { return f() }
func (f cbIO) Out(uint8, uint8) {}

type cbMem struct {
	code [4]uint8
	at   uint16
	cb   func() uint8
}

func (m *cbMem) Get(a uint16) uint8 {
	if a == m.at {
		return m.cb()
	}
	return m.code[a&3]
}
func (m *cbMem) Set(uint16, uint8) {}

func c16Reg(v uint16) string {
	var r z80.Register
	r.Hi, r.Lo = uint8(v)^0x5a, uint8(v>>8)^0xa5 // junk before
	r.SetU16(v)
	if r.U16() != v {
		return fmt.Sprintf("SetU16(%04x);U16()=%04x", v, r.U16())
	}
	if r.Hi != uint8(v>>8) || r.Lo != uint8(v) {
		return fmt.Sprintf("SetU16(%04x): Hi=%02x Lo=%02x", v, r.Hi, r.Lo)
	}
	// whatever the register held before (a neighbour of the new value, a value sharing one half with it, ...)
	for _, before := range []uint16{v - 1, v + 1, v - 0x100, v + 0x100, v ^ 0xFF00, v ^ 0x00FF, v, 0, 0xFFFF} {
		var p z80.Register
		p.SetU16(before)
		p.SetU16(v)
		if p.U16() != v || p.Hi != uint8(v>>8) || p.Lo != uint8(v) {
			return fmt.Sprintf("SetU16(%04x) on a register holding %04x: Hi=%02x Lo=%02x", v, before, p.Hi, p.Lo)
		}
	}
	r2 := z80.Register{Hi: uint8(v >> 8), Lo: uint8(v)}
	if r2.U16() != v {
		return fmt.Sprintf("Register{%02x,%02x}.U16()=%04x", r2.Hi, r2.Lo, r2.U16())
	}
	return ""
}

func c16Consts() string {
	want := map[string][2]uint8{
		"FlagC": {uint8(z80.FlagC), 0x01}, "FlagN": {uint8(z80.FlagN), 0x02}, "FlagPV": {uint8(z80.FlagPV), 0x04},
		"Flag3": {uint8(z80.Flag3), 0x08}, "FlagH": {uint8(z80.FlagH), 0x10}, "Flag5": {uint8(z80.Flag5), 0x20},
		"FlagZ": {uint8(z80.FlagZ), 0x40}, "FlagS": {uint8(z80.FlagS), 0x80},
	}
	for _, k := range []string{"FlagC", "FlagN", "FlagPV", "Flag3", "FlagH", "Flag5", "FlagZ", "FlagS"} {
		if want[k][0] != want[k][1] {
			return fmt.Sprintf("%s=%#02x want %#02x", k, want[k][0], want[k][1])
		}
	}
	return ""
}

func c16Run(c c16Case) string {
	switch c.Op {
	case "GetFlag", "SetFlag", "ResetFlag":
		return c16Flag(c.Op, uint8(c.Mask), uint8(c.F), uint8(c.A))
	case "Register":
		return c16Reg(uint16(c.V))
	case "Consts":
		return c16Consts()
	}
	return "unknown op " + c.Op
}

func init() {
	replayers["flag"] = func(prop string, raw json.RawMessage) (string, error) {
		var c c16Case
		if err := json.Unmarshal(raw, &c); err != nil {
			return "", err
		}
		return c16Run(c), nil
	}
}

func TestC16(t *testing.T) {
	col := stats.New("C16")
	defer finish(t, col)
	col.Exhaustive = true
	col.Rule = "complete enumeration: {GetFlag,SetFlag,ResetFlag} x 256 masks x 256 F x 256 A (via GPR and via CPU; one combination in 16 also on a struct copy of a used CPU value, after executed EX AF,AF' / EXX, and called from inside an IO.In / Memory.Get callback during a Step), 8 constants, " +
		"SetU16/U16/Hi/Lo x 65536 values (each also on registers holding a neighbour of the new value, a value sharing one half with it, 0, 0xFFFF); non-trivial = mask not in {0x00,0xFF} (flag ops) or any register value; distinct by construction"

	if m := c16Consts(); m != "" {
		violation(t, "C16", "flag", c16Case{Op: "Consts"}, "Z80 bit positions", m)
	}
	col.Eval(8)
	col.DistinctN(8)

	type res struct {
		c   c16Case
		msg string
	}
	var mu sync.Mutex
	var first *res
	var wg sync.WaitGroup
	nw := runtime.GOMAXPROCS(0)
	ops := []string{"GetFlag", "SetFlag", "ResetFlag"}
	for w := 0; w < nw; w++ {
		wg.Add(1)
		go func(w int) {
			defer wg.Done()
			var ev, nt int64
			for mask := w; mask < 256; mask += nw {
				for f := 0; f < 256; f++ {
					for a := 0; a < 256; a++ {
						for _, op := range ops {
							ev++
							if mask != 0 && mask != 0xff {
								nt++
							}
							if m := c16Flag(op, uint8(mask), uint8(f), uint8(a)); m != "" {
								mu.Lock()
								if first == nil {
									first = &res{c16Case{Op: op, Mask: mask, F: f, A: a}, m}
								}
								mu.Unlock()
								return
							}
						}
					}
				}
			}
			col.Eval(ev)
			col.DistinctN(nt)
		}(w)
	}
	wg.Wait()
	if first != nil {
		violation(t, "C16", "flag", first.c, "exactly the named bits", first.msg)
	}
	for v := 0; v < 65536; v++ {
		if m := c16Reg(uint16(v)); m != "" {
			violation(t, "C16", "flag", c16Case{Op: "Register", V: v}, "identity", m)
		}
	}
	col.Eval(65536)
	col.DistinctN(65536)
	col.Sample(1, c16Case{Op: "SetFlag", Mask: 0x41, F: 0x80, A: 0x12})
	col.Sample(2, c16Case{Op: "ResetFlag", Mask: 0x28, F: 0xff, A: 0x00})
	col.Sample(3, c16Case{Op: "GetFlag", Mask: 0x11, F: 0x10, A: 0xff})
	col.Sample(4, c16Case{Op: "Register", V: 0xfffe})
}
