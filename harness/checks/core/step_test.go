package core

import (
	"encoding/hex"
	"encoding/json"
	"fmt"
	"sync/atomic"

	"github.com/koron-go/z80"
	"github.com/koron-go/z80/verifharness/bus"
	"github.com/koron-go/z80/verifharness/eng"
	"github.com/koron-go/z80/verifharness/ref"
	"github.com/koron-go/z80/verifharness/stats"
	"pgregory.net/rapid"
)

// ---------------------------------------------------------------------------
// encodings

// encoding is one implemented opcode encoding: prefix bytes + opcode; xycb
// marks the DD CB d op layout where the displacement precedes the opcode.
type encoding struct {
	pre  []uint8 // everything before the operand bytes (for xycb: DD CB)
	op   uint8   // xycb only: the fourth byte
	xycb bool
	name string // hex, "ddcb__06" for xycb
	doc  bool
}

// bytes lays the instruction out with the drawn operand bytes.
func (e *encoding) bytes(ops [3]uint8) []uint8 {
	if e.xycb {
		return []uint8{e.pre[0], e.pre[1], ops[0], e.op, ops[1], ops[2]}
	}
	b := append([]uint8{}, e.pre...)
	return append(b, ops[0], ops[1], ops[2])
}

// probeBus feeds fixed bytes to the model to ask whether an encoding is in its
// implemented table.
type probeBus struct{ b []uint8 }

func (p *probeBus) Read(a uint16) uint8 {
	if int(a) < len(p.b) {
		return p.b[a]
	}
	return 0
}
func (p *probeBus) Write(uint16, uint8) {}
func (p *probeBus) In(uint8) uint8      { return 0 }
func (p *probeBus) Out(uint8, uint8)    {}

func modelImplements(b []uint8) (bool, bool) {
	var s ref.State
	in := ref.Step(&s, &probeBus{b})
	return in.Implemented, in.Documented
}

// allEncodings enumerates the seven decode tables through the model.
var allEncodings = func() []encoding {
	var out []encoding
	add := func(pre []uint8, op uint8, xycb bool) {
		var b []uint8
		var name string
		if xycb {
			b = []uint8{pre[0], pre[1], 0, op, 0, 0}
			name = fmt.Sprintf("%02x%02x__%02x", pre[0], pre[1], op)
		} else {
			b = append(append([]uint8{}, pre...), 0, 0, 0)
			name = hex.EncodeToString(pre)
		}
		ok, doc := modelImplements(b)
		if !ok {
			return
		}
		out = append(out, encoding{pre: pre, op: op, xycb: xycb, name: name, doc: doc})
	}
	for o := 0; o < 256; o++ {
		switch o {
		case 0xCB, 0xED, 0xDD, 0xFD:
			continue
		}
		add([]uint8{uint8(o)}, 0, false)
	}
	for _, p := range []uint8{0xCB, 0xED, 0xDD, 0xFD} {
		for o := 0; o < 256; o++ {
			if (p == 0xDD || p == 0xFD) && o == 0xCB {
				continue
			}
			add([]uint8{p, uint8(o)}, 0, false)
		}
	}
	for _, p := range []uint8{0xDD, 0xFD} {
		for o := 0; o < 256; o++ {
			add([]uint8{p, 0xCB}, uint8(o), true)
		}
	}
	return out
}()

// ---------------------------------------------------------------------------
// case

type stepCase struct {
	Enc     string    `json:"enc"`
	Bytes   string    `json:"bytes"` // instruction bytes as laid out at PC (hex)
	St      ref.State `json:"state"`
	MemSeed uint64    `json:"memseed"`
	IOSeed  uint64    `json:"ioseed"`
	Fill    int       `json:"fill"`               // -1 = hashed contents, else constant byte
	IOFill  int       `json:"iofill"`             // -1 = hashed port data, else constant byte
	NilIO   bool      `json:"nil_io,omitempty"`   // emulator runs without an I/O device (IOFill must be 0)
	MemKind int       `json:"mem_kind,omitempty"` // 0 recording bus, 1 DumbMemory, 2 MapMemory
	// RaiseAt > 0: a device callback raises a request at the RaiseAt-th bus access of this Step (RaiseNMI: an NMI,
	// else a maskable one). MaskedPending: a maskable request is already pending and refused (IFF1 is forced to 0)
	// when the Step starts. The Step must execute exactly the instruction; the request raised last is the one
	// that is pending afterwards.
	RaiseAt       int  `json:"raise_at,omitempty"`
	RaiseNMI      bool `json:"raise_nmi,omitempty"`
	MaskedPending bool `json:"masked_pending,omitempty"`
	// ShortLen (MemKind 3): the emulator runs on a DumbMemory of this length; beyond it reads give 0 and writes are
	// dropped (C15), and the model sees the same memory.
	ShortLen int `json:"short_len,omitempty"`
	// FaultAt > 0: the CPU value has a history - in its previous Step a device callback panicked at the FaultAt-th
	// bus access (a bus fault, a write-protect trap) and the host recovered. Every exported field is overwritten
	// afterwards, so the Step under test must not notice.
	FaultAt int `json:"fault_at,omitempty"`
}

// shortRecBus is the model's view of a DumbMemory of length n.
type shortRecBus struct {
	*bus.Rec
	n int
}

func (s *shortRecBus) Read(a uint16) uint8 {
	if int(a) >= s.n {
		return 0
	}
	return s.Rec.Read(a)
}

func (s *shortRecBus) Write(a uint16, v uint8) {
	if int(a) < s.n {
		s.Rec.Write(a, v)
	}
}

// stepRig holds the reusable machinery of one worker.
type stepRig struct {
	ib, mb *bus.Rec
	cpu    z80.CPU
	retn   counter
	reti   counter
	// variations of the machine the emulator runs on (the model always runs on its recording bus)
	nilIO   bool           // no I/O device attached: port writes vanish, port reads give 0
	memKind int            // 0: recording bus, 1: the bundled DumbMemory (64 KiB), 2: the bundled MapMemory
	dumb    z80.DumbMemory // reused between cases; only the cells a case needs are initialised
	prev    z80.CPU        // the CPU value of the previous case (see run)
	alt     z80.CPU        // every other case executes on this copy (another address than r.cpu)
	flip    bool
}

const (
	memRec = iota
	memDumb
	memMap
	memShort
)

type counter struct{ n int }

func (c *counter) RETNHandle() { c.n++ }
func (c *counter) RETIHandle() { c.n++ }

func newStepRig() *stepRig {
	return &stepRig{ib: bus.New(), mb: bus.New()}
}

type stepOutcome struct {
	in      ref.Info
	pre     ref.State
	got     ref.State
	want    ref.State
	discs   []eng.Disc
	logged  bool // emulator logged "invalid code"
	skipped bool // model does not implement the encoding: no verdict
	nAccess int
}

// run executes one case on the emulator and on the model and compares.
func (r *stepRig) run(c *stepCase, code []uint8) stepOutcome {
	var o stepOutcome
	r.nilIO, r.memKind = c.NilIO, c.MemKind
	if c.NilIO {
		c.IOFill = 0
	}
	o.pre = c.St
	r.ib.Reset(c.MemSeed, c.IOSeed, c.Fill, c.IOFill)
	r.mb.Reset(c.MemSeed, c.IOSeed, c.Fill, c.IOFill)
	for i, b := range code {
		a := c.St.PC + uint16(i)
		r.ib.Poke(a, b)
		r.mb.Poke(a, b)
	}
	// model first: if it does not implement the encoding there is no verdict
	o.want = c.St
	if c.MemKind == memShort {
		o.in = ref.Step(&o.want, &shortRecBus{r.mb, c.ShortLen})
	} else {
		o.in = ref.Step(&o.want, r.mb)
	}
	if !o.in.Implemented {
		o.skipped = true
		return o
	}
	if c.FaultAt > 0 {
		// history: the same instruction from the same state, but a callback panics in mid-Step and the host recovers
		f := r.prev
		f.RETNHandler, f.RETIHandler, f.Interrupt, f.BreakPoints = nil, nil, nil, nil
		f.Memory, f.IO = r.ib, r.ib
		eng.ToCPU(&c.St, &f)
		at := c.FaultAt
		r.ib.Hook = func(n int, _ bus.Access) {
			if n == at {
				panic("bus fault injected by the harness")
			}
		}
		eng.SafeStep(&f)
		r.prev = f
		r.ib.Reset(c.MemSeed, c.IOSeed, c.Fill, c.IOFill)
		for i, b := range code {
			r.ib.Poke(c.St.PC+uint16(i), b)
		}
	}
	// half of the cases start from a brand-new CPU value, the other half from a struct copy of the CPU
	// that ran the previous case with every exported field overwritten: a Step depends on the public
	// state only, so whatever else such a value carries along must not matter
	if c.MemSeed>>6&1 == 0 && c.FaultAt == 0 {
		r.cpu = z80.CPU{}
	} else {
		r.cpu = r.prev
		r.cpu.RETNHandler, r.cpu.RETIHandler, r.cpu.Interrupt, r.cpu.BreakPoints = nil, nil, nil, nil
	}
	r.cpu.Memory, r.cpu.IO = r.ib, r.ib
	if r.nilIO {
		r.cpu.IO = nil
	}
	// Step does not look at break points (Run does): nil, empty or populated must make no difference
	switch c.MemSeed >> 9 & 3 {
	case 1:
		r.cpu.BreakPoints = map[uint16]struct{}{}
	case 2:
		r.cpu.BreakPoints = map[uint16]struct{}{c.St.PC: {}, c.St.PC + 1: {}, c.St.PC + 2: {}, c.St.PC + 3: {}, 0x0038: {}, 0x0066: {}}
	}
	defer func() { r.prev = r.cpu }()
	var mm z80.MapMemory
	switch r.memKind {
	case memDumb:
		// the cells the instruction is defined to touch (the model's log) get their initial contents;
		// everything else holds leftovers of earlier cases, which a correct Step never looks at
		if r.dumb == nil {
			r.dumb = make(z80.DumbMemory, 65536)
		}
		for _, x := range r.mb.Log {
			if x.K == bus.Read || x.K == bus.Write {
				r.dumb[x.Addr] = r.ib.Peek(x.Addr)
			}
		}
		r.cpu.Memory = r.dumb
	case memShort:
		if r.dumb == nil {
			r.dumb = make(z80.DumbMemory, 65536)
		}
		for _, x := range r.mb.Log {
			if x.K == bus.Read || x.K == bus.Write {
				r.dumb[x.Addr] = r.ib.Peek(x.Addr)
			}
		}
		r.cpu.Memory = r.dumb[:c.ShortLen:c.ShortLen]
	case memMap:
		// sparse: cells holding the type's default 0xC7 stay absent from the map (Get must supply the default)
		mm = z80.MapMemory{}
		for _, x := range r.mb.Log {
			if x.K == bus.Read || x.K == bus.Write {
				if v := r.ib.Peek(x.Addr); v != 0xC7 {
					mm[x.Addr] = v
				}
			}
		}
		r.cpu.Memory = mm
	}
	r.retn.n, r.reti.n = 0, 0
	handlers := int(c.MemSeed>>4) & 3
	if handlers&1 == 0 {
		r.cpu.RETNHandler = &r.retn
	}
	if handlers&2 == 0 {
		r.cpu.RETIHandler = &r.reti
	}
	eng.ToCPU(&c.St, &r.cpu)
	var oldReq, newReq *z80.Interrupt
	if c.MaskedPending {
		oldReq = z80.IM1Interrupt()
		r.cpu.Interrupt = oldReq
	}
	if c.RaiseAt > 0 {
		if c.RaiseNMI {
			newReq = z80.NMIInterrupt()
		} else {
			newReq = z80.IM2Interrupt(0x10)
		}
	}
	// every other case runs on a struct copy that lives at another address than the value it was copied from
	// (and the original is scribbled over): whatever a CPU value caches must not point back into another value
	target := &r.cpu
	r.flip = !r.flip
	if r.flip {
		r.alt = r.cpu
		target = &r.alt
		r.cpu.States = z80.States{}
	}
	if c.RaiseAt > 0 {
		at := c.RaiseAt
		r.ib.Hook = func(n int, _ bus.Access) {
			if n == at {
				target.Interrupt = newReq
			}
		}
	}
	l0 := atomic.LoadInt64(&logLines)
	pan := eng.SafeStep(target)
	if r.flip {
		r.cpu = r.alt
		r.alt.States = z80.States{}
	}
	if pan != nil {
		o.discs = append(o.discs, eng.Disc{Kind: eng.KPanic, Msg: fmt.Sprint("Step panicked: ", pan)})
		return o
	}
	r.ib.Hook = nil
	o.logged = atomic.LoadInt64(&logLines) != l0
	o.got = eng.FromCPU(&r.cpu)
	o.nAccess = len(r.mb.Log)
	if !o.logged && o.in.Optional && consumedAsInvalid(&o.pre, &o.got, r.ib.Log, r.memKind == memRec) {
		o.logged = true // an optional encoding (RETN mirror) this tree does not support (and does not report): no verdict
	}
	if o.logged {
		// the emulator treats the encoding as unsupported
		if o.in.Documented {
			o.discs = append(o.discs, eng.Disc{Kind: eng.KInvalid, Msg: "documented encoding reported as invalid code"})
		}
		return o
	}
	o.discs = eng.StateDiff(&o.got, &o.want, &o.pre, &o.in)
	switch {
	case r.memKind != memRec:
		// no access log: final contents of every cell the instruction is defined to touch
		for _, x := range r.mb.Log {
			if x.K != bus.Read && x.K != bus.Write {
				continue
			}
			var g uint8
			if r.memKind == memDumb || r.memKind == memShort {
				g = r.dumb[x.Addr]
			} else {
				g = mm.Get(x.Addr)
			}
			if w := r.mb.Peek(x.Addr); g != w {
				o.discs = append(o.discs, eng.Disc{Kind: eng.KMemImg, Msg: fmt.Sprintf("mem[%04x]=%02x want %02x (bundled memory type %d)", x.Addr, g, w, r.memKind)})
				break
			}
		}
	case r.nilIO:
		// the device sees nothing; memory accesses must be exactly the same
		saved := r.mb.Log
		var memOnly []bus.Access
		for _, x := range saved {
			if x.K == bus.Read || x.K == bus.Write {
				memOnly = append(memOnly, x)
			}
		}
		r.mb.Log = memOnly
		o.discs = append(o.discs, eng.LogDiff(r.ib, r.mb)...)
		r.mb.Log = saved
	default:
		o.discs = append(o.discs, eng.LogDiff(r.ib, r.mb)...)
	}
	// requests: what was pending at entry stays pending (refused); one raised by a callback during the
	// Step waits for the next Step - it is neither served within this one nor lost
	wantReq := oldReq
	if newReq != nil && len(r.ib.Log) >= c.RaiseAt {
		wantReq = newReq
	}
	if r.cpu.Interrupt != wantReq {
		what := "the request raised by a device callback during the Step"
		if wantReq == oldReq {
			what = "the refused request that was pending at entry"
		}
		if wantReq == nil {
			what = "no request"
		}
		o.discs = append(o.discs, eng.Disc{Kind: eng.KIntr, Msg: "after the Step cpu.Interrupt does not hold " + what})
	}
	wantN, wantI := 0, 0
	if handlers&1 == 0 {
		wantN = o.in.RetN
	}
	if handlers&2 == 0 {
		wantI = o.in.RetI
	}
	if r.retn.n != wantN || r.reti.n != wantI {
		o.discs = append(o.discs, eng.Disc{Kind: eng.KIntr,
			Msg: fmt.Sprintf("RETN/RETI handler calls %d/%d want %d/%d (registered: RETN %v, RETI %v)", r.retn.n, r.reti.n, wantN, wantI, handlers&1 == 0, handlers&2 == 0)})
	}
	return o
}

func stateHash(s *ref.State) uint64 {
	b2u := func(b bool) uint64 {
		if b {
			return 1
		}
		return 0
	}
	return stats.Hash(
		uint64(s.A)|uint64(s.F)<<8|uint64(s.B)<<16|uint64(s.C)<<24|uint64(s.D)<<32|uint64(s.E)<<40|uint64(s.H)<<48|uint64(s.L)<<56,
		uint64(s.A_)|uint64(s.F_)<<8|uint64(s.B_)<<16|uint64(s.C_)<<24|uint64(s.D_)<<32|uint64(s.E_)<<40|uint64(s.H_)<<48|uint64(s.L_)<<56,
		uint64(s.IX)|uint64(s.IY)<<16|uint64(s.SP)<<32|uint64(s.PC)<<48,
		uint64(s.I)|uint64(s.R)<<8|b2u(s.IFF1)<<16|b2u(s.IFF2)<<17|uint64(s.IM&3)<<18|b2u(s.Halt)<<20)
}

// ---------------------------------------------------------------------------
// generators

var edge16 = []uint16{0, 1, 2, 0xFF, 0x100, 0x7FFF, 0x8000, 0xFFFD, 0xFFFE, 0xFFFF}
var edge8 = []uint8{0, 1, 0x0F, 0x10, 0x7F, 0x80, 0x81, 0xFE, 0xFF}

func gen16() *rapid.Generator[uint16] {
	return rapid.OneOf(rapid.SampledFrom(edge16), rapid.Uint16())
}

func gen8() *rapid.Generator[uint8] {
	return rapid.OneOf(rapid.SampledFrom(edge8), rapid.Uint8())
}

func genState(t *rapid.T) ref.State {
	var s ref.State
	g8, g16 := gen8(), gen16()
	s.A, s.F = g8.Draw(t, "A"), rapid.Uint8().Draw(t, "F")
	bc, de, hl := g16.Draw(t, "BC"), g16.Draw(t, "DE"), g16.Draw(t, "HL")
	s.B, s.C, s.D, s.E, s.H, s.L = uint8(bc>>8), uint8(bc), uint8(de>>8), uint8(de), uint8(hl>>8), uint8(hl)
	af, bc2, de2, hl2 := rapid.Uint16().Draw(t, "AF'"), g16.Draw(t, "BC'"), g16.Draw(t, "DE'"), g16.Draw(t, "HL'")
	s.A_, s.F_ = uint8(af>>8), uint8(af)
	s.B_, s.C_, s.D_, s.E_, s.H_, s.L_ = uint8(bc2>>8), uint8(bc2), uint8(de2>>8), uint8(de2), uint8(hl2>>8), uint8(hl2)
	s.IX, s.IY, s.SP, s.PC = g16.Draw(t, "IX"), g16.Draw(t, "IY"), g16.Draw(t, "SP"), g16.Draw(t, "PC")
	s.I, s.R = g8.Draw(t, "I"), rapid.Uint8().Draw(t, "R")
	fl := rapid.IntRange(0, 63).Draw(t, "iff1|iff2|im|halt")
	s.IFF1, s.IFF2 = fl&1 != 0, fl&2 != 0
	s.IM = (fl >> 2) % 3
	s.Halt = fl&32 != 0 && fl&16 != 0
	return s
}

// applyAlias forces a drawn subset of the pointers onto / next to a target
// address taken from the interesting set (instruction bytes, stack top, ends of
// the address space). This is what reaches "operand overlaps the instruction",
// "stack overlaps the instruction" and 16-bit accesses at 0xFFFF.
func applyAlias(t *rapid.T, s *ref.State, ops *[3]uint8, avoidPC0 bool) bool {
	if rapid.IntRange(0, 2).Draw(t, "alias?") != 0 {
		return false
	}
	var targets []uint16
	for d := -1; d <= 5; d++ {
		if avoidPC0 && d == 0 {
			continue
		}
		targets = append(targets, s.PC+uint16(d))
	}
	targets = append(targets, s.SP-2, s.SP-1, s.SP, s.SP+1, 0x0000, 0x0001, 0xFFFE, 0xFFFF)
	T := rapid.SampledFrom(targets).Draw(t, "aliasTarget")
	mask := rapid.IntRange(1, 255).Draw(t, "aliasMask")
	dl := rapid.IntRange(0, 6560).Draw(t, "aliasDeltas") // 8 ternary digits
	delta := func() uint16 {
		d := dl % 3
		dl /= 3
		return uint16(d - 1)
	}
	set16 := func(hi, lo *uint8, v uint16) { *hi, *lo = uint8(v>>8), uint8(v) }
	if mask&1 != 0 {
		set16(&s.H, &s.L, T+delta())
	}
	if mask&2 != 0 {
		set16(&s.D, &s.E, T+delta())
	}
	if mask&4 != 0 {
		set16(&s.B, &s.C, T+delta())
	}
	if mask&8 != 0 {
		s.SP = T + delta()
	}
	if mask&16 != 0 { // nn operand
		v := T + delta()
		ops[0], ops[1] = uint8(v), uint8(v>>8)
	}
	if mask&32 != 0 { // IX+d
		s.IX = T + delta() - uint16(int16(int8(ops[0])))
	}
	if mask&64 != 0 { // IY+d
		s.IY = T + delta() - uint16(int16(int8(ops[0])))
	}
	if mask&128 != 0 { // I:vector style / PC itself near target
		s.PC = T + delta()
	}
	return true
}

type stepDraw struct {
	st      ref.State
	ops     [3]uint8
	memSeed uint64
	ioSeed  uint64
	fill    int
	ioFill  int
	aliased bool
	variant int
}

func drawStep(t *rapid.T, avoidPC0 bool) stepDraw {
	var d stepDraw
	d.st = genState(t)
	g8 := gen8()
	d.ops = [3]uint8{g8.Draw(t, "op1"), g8.Draw(t, "op2"), g8.Draw(t, "op3")}
	d.memSeed = rapid.Uint64().Draw(t, "memseed")<<4 | uint64(env.Shard&15)
	d.ioSeed = d.memSeed ^ 0x5555
	d.fill, d.ioFill = -1, -1
	if rapid.IntRange(0, 3).Draw(t, "fill?") == 0 {
		d.fill = int(g8.Draw(t, "fill"))
	}
	if rapid.IntRange(0, 3).Draw(t, "iofill?") == 0 {
		d.ioFill = int(g8.Draw(t, "iofill"))
	}
	d.aliased = applyAlias(t, &d.st, &d.ops, avoidPC0)
	d.variant = rapid.IntRange(0, 7).Draw(t, "machine")
	return d
}

// ---------------------------------------------------------------------------
// the shared single-Step property (C01, C05, C14 claim different kinds)

type stepProp struct {
	prop    string
	kinds   map[string]bool
	col     *stats.Collector
	rig     *stepRig
	focus   int // after the first failure only this encoding is run, so shrinking stays on it
	encs    []encoding
	unsupp  map[string]bool
	classes map[string]int64
	// ntAccessOnly: a case is non-trivial only if it makes a data or port access (C05)
	ntAccessOnly bool
}

func newStepProp(prop string, kinds ...string) *stepProp {
	p := &stepProp{prop: prop, kinds: map[string]bool{}, col: stats.New(prop), rig: newStepRig(), focus: -1,
		encs: allEncodings, unsupp: map[string]bool{}, classes: map[string]int64{}}
	for _, k := range kinds {
		p.kinds[k] = true
	}
	p.kinds[eng.KPanic] = true
	return p
}

func (p *stepProp) claimed(ds []eng.Disc) *eng.Disc {
	for i := range ds {
		if p.kinds[ds[i].Kind] {
			return &ds[i]
		}
	}
	return nil
}

// shortLen picks the length of the short DumbMemory of a case: mostly just behind the instruction or at / next to an
// address a register points to, so that operands fall off the end.
func shortLen(c *stepCase, n int) int {
	st := &c.St
	hl := int(st.H)<<8 | int(st.L)
	cands := []int{int(st.PC) + n, hl, hl + 1, int(st.D)<<8 | int(st.E), int(st.B)<<8 | int(st.C), int(st.SP) - 1, int(st.SP), int(st.SP) + 1,
		int(st.IX), int(st.IY), int(c.MemSeed >> 20 & 0xffff), 0, 1, int(st.PC) + 1}
	l := cands[int(c.MemSeed>>36)%len(cands)]
	if c.MemSeed>>41&3 != 0 && l < int(st.PC)+n {
		l = int(st.PC) + n // mostly the instruction itself is inside
	}
	if l < 0 {
		l = 0
	}
	if l > 65536 {
		l = 65536
	}
	return l
}

// one runs a single (draw, encoding) pair; returns a violation message or "".
func (p *stepProp) one(d *stepDraw, ei int, t failer) {
	e := &p.encs[ei]
	code := e.bytes(d.ops)
	c := stepCase{Enc: e.name, St: d.st, MemSeed: d.memSeed ^ uint64(ei)<<40, IOSeed: d.ioSeed ^ uint64(ei)<<40, Fill: d.fill, IOFill: d.ioFill}
	// machine variation, by draw: 1/8 without I/O device, 1/8 on DumbMemory, 1/8 on MapMemory
	switch d.variant & 7 {
	case 1:
		c.NilIO, c.IOFill = true, 0
	case 2:
		c.MemKind = memDumb
	case 3:
		c.MemKind = memMap
		if d.memSeed>>13&1 == 0 {
			c.Fill = 0xC7 // all data cells hold MapMemory's default: none of them is in the map
		}
	case 5:
		c.MemKind = memShort
		c.ShortLen = shortLen(&c, len(code))
	case 6:
		c.FaultAt = 1 + int(d.memSeed>>12)%5
	case 4:
		// a device raises a request in the middle of the instruction
		c.RaiseAt = 1 + int(d.memSeed>>12)%6
		c.RaiseNMI = d.memSeed>>16&1 == 0
		if d.memSeed>>17&1 == 0 {
			c.MaskedPending = true
			c.St.IFF1 = false
		}
	}
	o := p.rig.run(&c, code)
	p.col.Eval(1)
	if o.skipped {
		p.col.Label("skipped:model-does-not-implement")
		return
	}
	if o.logged && !o.in.Documented {
		if !p.unsupp[e.name] {
			p.unsupp[e.name] = true
			p.col.Label("undocumented-encoding-not-supported-by-tree")
		}
		return
	}
	if dc := p.claimed(o.discs); dc != nil {
		c.Bytes = hex.EncodeToString(code)
		p.focus = ei
		violation(t, p.prop, "step", c, "Z80 reference model ("+o.in.Class+")", dc.Kind+": "+dc.Msg)
	}
	p.classes[o.in.Class]++
	// non-trivial: changes something besides PC/R or makes a data / port access
	nt := o.nAccess > o.in.Len
	if !nt && !p.ntAccessOnly {
		a, b := o.pre, o.want
		a.PC, a.R, b.PC, b.R = 0, 0, 0, 0
		nt = a != b
	}
	if nt {
		h := stats.Hash(uint64(ei), stateHash(&c.St), uint64(d.ops[0])|uint64(d.ops[1])<<8|uint64(d.ops[2])<<16, c.MemSeed, uint64(c.Fill+1))
		p.col.Distinct(h)
		if p.col.WantSample(h) {
			c.Bytes = hex.EncodeToString(code)
			p.col.Sample(h, c)
		}
	}
	if d.aliased {
		p.col.Label("aliased")
	}
	switch {
	case c.NilIO:
		p.col.Label("machine:no-io-device")
	case c.MemKind == memDumb:
		p.col.Label("machine:DumbMemory")
	case c.MemKind == memMap:
		p.col.Label("machine:MapMemory")
	case c.MemKind == memShort:
		p.col.Label("machine:short-DumbMemory")
		if c.ShortLen >= int(c.St.PC)+len(code) {
			p.col.Label("machine:short-DumbMemory-holding-the-instruction")
		}
	case c.FaultAt > 0:
		p.col.Label("machine:cpu-value-recovered-from-a-callback-panic")
	case c.RaiseAt > 0:
		p.col.Label("machine:request-raised-during-step")
	}
	wrapPC := uint16(c.St.PC+uint16(o.in.Len)) < c.St.PC
	if wrapPC {
		p.col.Label("instruction-wraps-ffff")
	}
	if o.in.Taken == 1 {
		p.col.Label("cond-taken")
	} else if o.in.Taken == 2 {
		p.col.Label("cond-untaken")
	}
	if o.in.Repeat {
		p.col.Label("block-repeat")
	}
	p.classifyAccess(&o, &c)
}

// classifyAccess labels shapes the properties name explicitly.
func (p *stepProp) classifyAccess(o *stepOutcome, c *stepCase) {
	log := p.rig.mb.Log
	if len(log) <= o.in.Len {
		return
	}
	p.col.Label("data-or-port-access")
	var rd, wr, io bool
	overlap := false
	at := map[uint16]int{}
	for i, x := range log {
		if i < o.in.Len && x.K == bus.Read {
			continue
		}
		switch x.K {
		case bus.Read:
			rd = true
		case bus.Write:
			wr = true
			at[x.Addr]++
		default:
			io = true
		}
		if x.K == bus.Read || x.K == bus.Write {
			off := x.Addr - c.St.PC
			if int(off) < o.in.Len {
				overlap = true
			}
		}
	}
	if rd && wr {
		p.col.Label("read-and-write")
	}
	if io {
		p.col.Label("port-io")
	}
	if overlap {
		p.col.Label("operand-overlaps-instruction")
	}
	for i := 1; i < len(log); i++ {
		if log[i].Addr == 0 && log[i-1].Addr == 0xFFFF && log[i].K == log[i-1].K && i >= o.in.Len {
			p.col.Label("16bit-access-wraps-ffff")
			break
		}
	}
}

func (p *stepProp) property(avoidPC0 bool) func(t *rapid.T) {
	return func(t *rapid.T) {
		d := drawStep(t, avoidPC0)
		if p.focus >= 0 {
			p.one(&d, p.focus, t)
			return
		}
		for ei := range p.encs {
			p.one(&d, ei, t)
		}
	}
}

func (p *stepProp) finishClasses() {
	for k, v := range p.classes {
		p.col.LabelN("class:"+k, v)
	}
}

func init() {
	replayers["step"] = func(prop string, raw json.RawMessage) (string, error) {
		var c stepCase
		if err := json.Unmarshal(raw, &c); err != nil {
			return "", err
		}
		code, err := hex.DecodeString(c.Bytes)
		if err != nil {
			return "", err
		}
		kinds := stepKinds[prop]
		if kinds == nil {
			return "", fmt.Errorf("no step kinds for %s", prop)
		}
		rig := newStepRig()
		o := rig.run(&c, code)
		if o.skipped || (o.logged && !o.in.Documented) {
			return "", nil
		}
		for _, d := range o.discs {
			if kinds[d.Kind] || d.Kind == eng.KPanic {
				return d.Kind + ": " + d.Msg, nil
			}
		}
		return "", nil
	}
}

var stepKinds = map[string]map[string]bool{
	"C01": {eng.KState: true, eng.KIff: true, eng.KFlags: true, eng.KMemImg: true, eng.KPortOut: true, eng.KInvalid: true},
	"C04": {eng.KState: true, eng.KFlags: true, eng.KMemImg: true},
	"C05": {eng.KAccess: true},
	"C06": {eng.KIff: true, eng.KIntr: true},
	"C14": {eng.KRefresh: true},
}
