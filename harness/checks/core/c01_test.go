package core

import (
	"encoding/json"
	"fmt"
	"testing"

	"github.com/koron-go/z80/verifharness/eng"
	"github.com/koron-go/z80/verifharness/ref"
	"github.com/koron-go/z80/verifharness/stats"
	"pgregory.net/rapid"
)

// C01 — every implemented instruction has exactly its Z80-defined effect.
func TestC01Step(t *testing.T) {
	// 930 encodings the pinned tree supports + the 6 undocumented mirrors of RETN (ED 55/5D/65/6D/75/7D), which a tree
	// need not support (then they are skipped and counted) but must not mistake for something else
	if len(allEncodings) != 936 {
		t.Fatalf("HARNESS: model implements %d encodings, expected 936", len(allEncodings))
	}
	p := newStepProp("C01", eng.KState, eng.KIff, eng.KFlags, eng.KMemImg, eng.KPortOut, eng.KInvalid)
	p.col.Sub = "step"
	defer finish(t, p.col)
	p.col.Rule = "step: every encoding of the model (936 = the 930 the pinned tree supports + 6 undocumented RETN mirrors, which are skipped where a tree does not support them; enumerated) x rapid-drawn pre-state (edge-biased registers, all F, IFF/IM/I/R/HALT), " +
		"operand bytes, hashed or constant memory and port data, 1/3 of cases with pointers aliased onto the instruction / stack / ends of memory; " +
		"oracle = reference model (full state, flags under the agreed mask, memory image, port output); " +
		"non-trivial = changes more than PC/R or makes a data/port access; distinct by hash(encoding, pre-state, operands, memory seed)"
	rapid.Check(t, p.property(false))
	p.finishClasses()
}

// soupLockstep runs a soup case in lock-step against the model and returns the
// first discrepancy of one of the given kinds.
func soupLockstep(rig *lockRig, c *soupCase, kinds map[string]bool) (msg string, steps int, truncated bool, classes []string) {
	rig.resync = true
	rig.init(c.St, c.MemSeed, c.IOSeed, c.Fill, c.IOFill)
	for i, b := range c.Code {
		rig.poke(c.St.PC+uint16(i), uint8(b))
	}
	for s := 0; s < c.Steps; s++ {
		for _, it := range c.Intr {
			if it.AtStep == s {
				if it.During > 0 {
					rig.raiseDuring(it.During, refRequest(it))
				} else {
					rig.raise(refRequest(it))
				}
			}
		}
		for _, a := range c.Actions {
			if a.AtStep == s {
				switch a.Kind {
				case "poke":
					rig.poke(a.Addr, uint8(a.Val))
				case "setpc":
					rig.ms.PC = a.Addr
					rig.cpu.PC = a.Addr
				}
			}
		}
		pending := rig.mReq != nil && (rig.mReq.NMI || rig.ms.IFF1)
		o := rig.step()
		if o.skipped {
			return "", s, true, classes
		}
		if pending && len(o.discs) > 0 && !kinds[eng.KIntr] {
			return "", s, true, classes // a discrepancy on a Step that should accept a request is C06's business
		}
		for _, d := range o.discs {
			if kinds[d.Kind] || d.Kind == eng.KPanic {
				return fmt.Sprintf("Step %d (%s at PC=%04x): %s: %s", s+1, o.in.Class, o.pre.PC, d.Kind, d.Msg), s, false, classes
			}
		}
		if len(o.discs) > 0 {
			return "", s, true, classes // someone else's discrepancy: the two sides have diverged
		}
		classes = append(classes, o.in.Class)
	}
	return "", c.Steps, false, classes
}

func refRequest(it soupIntr) ref.Request {
	return ref.Request{NMI: it.NMI, Data: toBytes(it.Data)}
}

func init() {
	replayers["soup"] = func(prop string, raw json.RawMessage) (string, error) {
		var c soupCase
		if err := json.Unmarshal(raw, &c); err != nil {
			return "", err
		}
		kinds := stepKinds[prop]
		if kinds == nil {
			kinds = stepKinds["C01"]
		}
		m, _, _, _ := soupLockstep(newLockRig(), &c, kinds)
		return m, nil
	}
}

// TestC01Soup: multi-Step programs in lock-step with the model, compared after every Step
// (catches state carried from one instruction to the next).
func TestC01Soup(t *testing.T) {
	col := stats.New("C01")
	col.Sub = "soup"
	defer finish(t, col)
	col.Rule = "soup: byte strings of 1..24 implemented encodings with drawn operands (prefix forms, block repeats, relative jumps favoured) placed at PC over hashed / NOP-filled memory, " +
		"run for up to 64 Steps in lock-step with the reference model and compared after every Step; where the model meets an encoding outside its table (one Step in a dozen is a drawn prefix + byte pair) it takes over the emulator's state and the comparison goes on; " +
		"non-trivial = program of >= 2 executed Steps; distinct by hash(code, state)"
	rig := newLockRig()
	rapid.Check(t, func(t *rapid.T) {
		c := genSoup(t, 24, 64)
		if rapid.IntRange(0, 2).Draw(t, "intr?") == 0 {
			genSoupIntr(t, &c, 2) // instructions must behave the same while a request is pending and refused
		}
		msg, steps, trunc, classes := soupLockstep(rig, &c, stepKinds["C01"])
		col.Eval(1)
		if msg != "" {
			violation(t, "C01", "soup", c, "reference model, every Step", msg)
		}
		for i, cl := range classes {
			if cl == "(not judged)" {
				col.Label("soup-steps-not-judged (model re-synchronised)")
				if i+1 < len(classes) {
					col.Label("soup-steps-judged-after-a-step-that-was-not")
				}
			}
		}
		col.LabelN("soup-steps", int64(steps))
		if trunc {
			col.Label("soup-truncated")
		}
		if steps >= 2 {
			h := stateHash(&c.St)
			for _, b := range c.Code {
				h = stats.Hash(h, uint64(b))
			}
			col.Distinct(h)
			if col.WantSample(h) && len(c.Code) < 40 {
				col.Sample(h, c)
			}
		}
	})
}

// FuzzC01Soup is the native coverage-guided target of C01's thorough tier: the fuzzer's bytes drive the
// same generator as TestC01Soup (rapid.MakeFuzz), coverage feedback comes from the emulator's decoder.
func FuzzC01Soup(f *testing.F) {
	rig := newLockRig()
	f.Add([]byte{0})
	f.Add([]byte{1, 2, 3, 4, 5, 6, 7, 8, 9, 10, 11, 12, 13, 14, 15, 16, 17, 18, 19, 20, 21, 22, 23, 24, 25, 26, 27, 28, 29, 30, 31, 32})
	f.Fuzz(rapid.MakeFuzz(func(t *rapid.T) {
		c := genSoup(t, 24, 64)
		if rapid.IntRange(0, 2).Draw(t, "intr?") == 0 {
			genSoupIntr(t, &c, 2)
		}
		msg, _, _, _ := soupLockstep(rig, &c, stepKinds["C01"])
		if msg != "" {
			if env.OutDir != "" {
				violation(t, "C01", "soup", c, "reference model, every Step", msg)
			}
			t.Fatalf("VIOLATION-CANDIDATE C01 %s", msg)
		}
	}))
}
