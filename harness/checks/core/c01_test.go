package core

import (
	"testing"

	"github.com/koron-go/z80/verifharness/eng"
	"pgregory.net/rapid"
)

// C01 — every implemented instruction has exactly its Z80-defined effect.
func TestC01Step(t *testing.T) {
	if len(allEncodings) != 930 {
		t.Fatalf("HARNESS: model implements %d encodings, expected 930", len(allEncodings))
	}
	p := newStepProp("C01", eng.KState, eng.KIff, eng.KFlags, eng.KMemImg, eng.KPortOut, eng.KInvalid)
	p.col.Sub = "step"
	defer finish(t, p.col)
	p.col.Rule = "step: every implemented encoding (930, enumerated) x rapid-drawn pre-state (edge-biased registers, all F, IFF/IM/I/R/HALT), " +
		"operand bytes, hashed or constant memory and port data, 1/3 of cases with pointers aliased onto the instruction / stack / ends of memory; " +
		"oracle = reference model (full state, flags under the agreed mask, memory image, port output); " +
		"non-trivial = changes more than PC/R or makes a data/port access; distinct by hash(encoding, pre-state, operands, memory seed)"
	rapid.Check(t, p.property(false))
	p.finishClasses()
}
