package core

import (
	"context"
	"encoding/json"
	"fmt"
	"testing"
	"time"

	"github.com/koron-go/z80"
	"github.com/koron-go/z80/verifharness/eng"
	"github.com/koron-go/z80/verifharness/ref"
	"github.com/koron-go/z80/verifharness/stats"
	"pgregory.net/rapid"
)

// C07 — an interrupt at any instruction boundary is transparent to the
// running program (metamorphic: interrupted run == uninterrupted run).

type c07Case struct {
	Prog program `json:"program"`
	Kind string  `json:"kind"` // nmi | im1 | im2 | im0rst | im0call
	K    int     `json:"k"`    // number of Steps before the request is raised
	Arg  int     `json:"arg"`  // im2: vector; im0rst: p
	// optional second request on the same CPU value, raised Gap Steps after the first handler has returned
	Second string `json:"second,omitempty"`
	Gap    int    `json:"gap,omitempty"`
	Arg2   int    `json:"arg2,omitempty"`
	// Dumb: the CPU's memory is the bundled DumbMemory (a slice over the machine's array) instead of the machine itself
	Dumb bool `json:"dumb,omitempty"`
	// ByRun: after the request has been raised the host drives the CPU with Run (call after call, each ending at a HALT)
	// instead of Step; only the end of the run is compared then
	ByRun bool `json:"by_run,omitempty"`
}

const c07MaxSteps = 20000

type c07Rig struct {
	base  [65536]uint8
	m0, m progMachine
	cpu   z80.CPU
	snap  [65536]uint8 // memory before a Step that may accept a mode-0 request
}

// arrayBus lets the reference model run on a plain memory array.
type arrayBus struct{ m *[65536]uint8 }

func (a arrayBus) Read(x uint16) uint8     { return a.m[x] }
func (a arrayBus) Write(x uint16, v uint8) { a.m[x] = v }
func (a arrayBus) In(uint8) uint8          { return 0 }
func (a arrayBus) Out(uint8, uint8)        {}

// im0QuirkMatches reports whether the acceptance Step that led from (pre, r.snap) to the current CPU
// state and memory is exactly what the known finding im0-executes-at-pc predicts.
func (r *c07Rig) im0QuirkMatches(pre z80.States, data []uint8) bool {
	for _, q := range []ref.Quirks{{Im0ExecutesAtPC: true}, {Im0ExecutesAtPC: true, Im0NoOverlay: true}} {
		var c z80.CPU
		c.States = pre
		s := eng.FromCPU(&c)
		mem := r.snap
		acc, _ := ref.Accept(&s, arrayBus{&mem}, ref.Request{Data: data}, q)
		if !acc {
			return false
		}
		got := eng.FromCPU(&r.cpu)
		got.R, s.R = 0, 0
		got.Halt, s.Halt = false, false
		if got == s && mem == r.m.m {
			return true
		}
	}
	return false
}

type c07Ref struct {
	n     int // Steps until the final HALT has been executed once
	st    z80.States
	halt  bool
	outs  []uint16
	valid bool
}

func haltExecuted(pcBefore, pcAfter uint16, m *progMachine) bool {
	return pcBefore == pcAfter && m.m[pcAfter] == 0x76
}

// undisturbed runs the program alone.
func (r *c07Rig) undisturbed(p *program, im int) c07Ref {
	var ref c07Ref
	r.m0.reset(&r.base, p.Seed^0x10)
	p.initCPU(&r.cpu, &r.m0)
	r.cpu.IM = im
	for n := 1; n <= c07MaxSteps; n++ {
		pc := r.cpu.PC
		r.cpu.Step()
		if haltExecuted(pc, r.cpu.PC, &r.m0) && r.cpu.PC == p.L.Halt {
			ref.n, ref.st, ref.halt, ref.valid = n, r.cpu.States, r.cpu.HALT, true
			ref.outs = append([]uint16(nil), r.m0.outs...)
			return ref
		}
	}
	return ref
}

type c07Outcome struct {
	msg      string
	known    bool // run excluded: acceptance reproduced the known finding in a way that cannot be compensated
	repaired int  // acceptances that reproduced the known finding exactly and whose return address was put right by the harness
	accepted bool
	nAcc     int
	labels   []string
}

func (r *c07Rig) request(c *c07Case) (*z80.Interrupt, int, int) {
	return r.requestOf(c, c.Kind, c.Arg)
}

func (r *c07Rig) requestOf(c *c07Case, kind string, arg int) (*z80.Interrupt, int, int) {
	L := &c.Prog.L
	switch kind {
	case "nmi":
		return z80.NMIInterrupt(), 0, 0
	case "im1":
		if arg != 0 {
			// a peripheral that drives a byte on the bus whatever the mode: mode 1 ignores it
			return &z80.Interrupt{Type: z80.IMType, Data: []uint8{uint8(arg)}}, 1, 0
		}
		return z80.IM1Interrupt(), 1, 0
	case "im2":
		return z80.IM2Interrupt(uint8(arg)), 2, 0
	case "im0rst":
		return z80.IM0Interrupt(uint8(0xC7 | arg<<3)), 0, 1
	default:
		return z80.IM0Interrupt(0xCD, uint8(L.HMask), uint8(L.HMask>>8)), 0, 3
	}
}

// inject runs the program with the request raised after K Steps.
func (r *c07Rig) inject(c *c07Case, ref *c07Ref) c07Outcome {
	var o c07Outcome
	p := &c.Prog
	req, im, ilen := r.request(c)
	r.m.reset(&r.base, p.Seed^0x10)
	p.initCPU(&r.cpu, &r.m)
	r.cpu.IM = im
	cpu := &r.cpu
	if c.Dumb {
		cpu.Memory = z80.DumbMemory(r.m.m[:])
	}
	for i := 0; i < c.K; i++ {
		cpu.Step()
	}
	parkedAtInjection := c.K >= ref.n
	cpu.Interrupt = req
	if c.ByRun {
		return r.finishByRun(c, ref, parkedAtInjection)
	}
	maskable := c.Kind != "nmi"
	if maskable && !cpu.IFF1 {
		o.labels = append(o.labels, "raised-while-disabled")
	}
	if c.K == 0 {
		o.labels = append(o.labels, "k=0")
	}
	if parkedAtInjection {
		o.labels = append(o.labels, "parked")
	}
	var spAccs []uint16
	done := false
	secondLeft := -1 // Steps until the second request is raised (-1: not armed)
	curReq, curLen := req, ilen
	for n := 0; n < ref.n+160; n++ {
		pc, sp := cpu.PC, cpu.SP
		pending := cpu.Interrupt != nil
		pre := cpu.States
		if pending && curLen > 0 && cpu.IFF1 {
			r.snap = r.m.m
		}
		cpu.Step()
		if pending && cpu.Interrupt == nil {
			// acceptance Step: the pushed word is the address of the first instruction not yet executed
			o.accepted = true
			o.nAcc++
			spAccs = append(spAccs, sp)
			pushed := uint16(r.m.m[cpu.SP]) | uint16(r.m.m[cpu.SP+1])<<8
			parked := r.m.m[pc] == 0x76 && pc >= p.L.Halt && pc <= p.L.Halt+2 && (parkedAtInjection || o.nAcc > 1)
			ok := cpu.SP == sp-2 && (pushed == pc || (parked && pushed == pc+1))
			if !ok {
				if curLen > 0 && env.Known[sigIm0] && r.im0QuirkMatches(pre, curReq.Data) {
					if cpu.SP == sp-2 && pushed == pc+uint16(curLen) && !(pc > 0xFFFF-uint16(curLen)) {
						// the plain manifestation of the known finding: only the return address is off. Put it
						// right and go on: everything else about this acceptance and the rest of the run is
						// still decided (and a later request meets a CPU value that has served one before)
						r.m.m[cpu.SP], r.m.m[cpu.SP+1] = uint8(pc), uint8(pc>>8)
						o.repaired++
						continue
					}
					o.known = true
					return o
				}
				if cpu.SP != sp-2 {
					o.msg = fmt.Sprintf("acceptance at PC=%04x: SP=%04x want %04x", pc, cpu.SP, sp-2)
				} else {
					o.msg = fmt.Sprintf("acceptance at PC=%04x pushed return address %04x", pc, pushed)
				}
				return o
			}
			if r.m.m[pc] == 0xED && r.m.m[pc+1]&0xF4 == 0xB0 && c.K > 0 {
				o.labels = append(o.labels, "inside-block-repeat?")
			}
			if pc >= p.L.Halt+4 && pc < p.L.CodeEnd {
				o.labels = append(o.labels, "inside-subroutine")
			}
			continue
		}
		// second request: armed once the first handler has returned (counter written, stack level restored)
		if c.Second != "" && o.nAcc == 1 && secondLeft < 0 && cpu.Interrupt == nil && r.m.m[p.L.Cnt] == 1 && cpu.SP == spAccs[0] &&
			!(cpu.PC >= p.L.HMask && cpu.PC < p.L.HMask+0x40) && !(cpu.PC >= p.L.HNMI && cpu.PC < p.L.HNMI+0x40) && cpu.PC >= 0x40 {
			secondLeft = c.Gap
		}
		if secondLeft == 0 {
			curReq, _, curLen = r.requestOf(c, c.Second, c.Arg2)
			cpu.Interrupt = curReq
			maskable = c.Second != "nmi"
			secondLeft = -2
			o.labels = append(o.labels, "second-request")
		} else if secondLeft > 0 {
			secondLeft--
		}
		if haltExecuted(pc, cpu.PC, &r.m) && cpu.PC >= p.L.Halt && cpu.PC <= p.L.Halt+3 {
			if secondLeft >= 0 {
				continue // the second request is still to come (it will find the program parked)
			}
			if cpu.Interrupt == nil || (maskable && !cpu.IFF1) {
				done = true
				break
			}
		}
	}
	if !done {
		o.msg = fmt.Sprintf("program did not get back to its final HALT within %d Steps after the request (PC=%04x)", ref.n+80, cpu.PC)
		return o
	}
	// final comparison
	got, want := cpu.States, ref.st
	got.IR.Lo, want.IR.Lo = got.IR.Lo&0x80, want.IR.Lo&0x80 // the counter bits differ by the handler's fetches; bit 7 must survive
	if got.PC > p.L.Halt && got.PC <= p.L.Halt+2 && (parkedAtInjection || o.nAcc > 1) {
		got.PC = p.L.Halt
	}
	if got != want {
		g, w := stFromStates(got), stFromStates(want)
		o.msg = "final state differs from the uninterrupted run: " + fmtStateDiff(&g, &w)
		return o
	}
	if cpu.HALT != ref.halt {
		o.msg = "HALT indication differs from the uninterrupted run"
		return o
	}
	cnt := r.m.m[p.L.Cnt]
	if int(cnt) != o.nAcc {
		o.msg = fmt.Sprintf("handler ran %d times for %d accepted requests", cnt, o.nAcc)
		return o
	}
	raised := 1
	if secondLeft == -2 {
		raised = 2
	}
	if o.nAcc < raised && cpu.Interrupt == nil {
		o.msg = fmt.Sprintf("%d requests raised, %d accepted, none pending: a request was lost", raised, o.nAcc)
		return o
	}
	// memory: everything except the stack bytes below SP at acceptance and the counter
	r.m.m[p.L.Cnt] = r.m0.m[p.L.Cnt]
	for _, spAcc := range spAccs {
		for i := uint16(1); i <= 16; i++ {
			r.m.m[spAcc-i] = r.m0.m[spAcc-i]
		}
	}
	if r.m.m != r.m0.m {
		for a := 0; a < 65536; a++ {
			if r.m.m[a] != r.m0.m[a] {
				o.msg = fmt.Sprintf("memory differs from the uninterrupted run at %04x: %02x want %02x", a, r.m.m[a], r.m0.m[a])
				return o
			}
		}
	}
	if len(r.m.outs) != len(ref.outs) {
		o.msg = "port output differs from the uninterrupted run"
		return o
	}
	for i := range ref.outs {
		if r.m.outs[i] != ref.outs[i] {
			o.msg = "port output differs from the uninterrupted run"
			return o
		}
	}
	return o
}

// finishByRun: the request has just been raised; the host goes on with Run. Every call ends at a HALT (the final one,
// possibly again after the handler has returned to it); the run is over when the program is parked on its final HALT
// with nothing left that could be accepted.
func (r *c07Rig) finishByRun(c *c07Case, ref *c07Ref, parkedAtInjection bool) c07Outcome {
	var o c07Outcome
	p, cpu := &c.Prog, &r.cpu
	sp0 := cpu.SP
	done := false
	for call := 0; call < 6; call++ {
		ctx, cancel := context.WithTimeout(context.Background(), 20*time.Second)
		err := cpu.Run(ctx)
		cancel()
		if err != nil {
			o.msg = fmt.Sprintf("driven by Run after the request: Run returned %v (PC=%04x)", err, cpu.PC)
			return o
		}
		if !(cpu.PC >= p.L.Halt && cpu.PC <= p.L.Halt+3 && r.m.m[cpu.PC] == 0x76) {
			o.msg = fmt.Sprintf("driven by Run after the request: Run stopped at PC=%04x, which is not the program's final HALT", cpu.PC)
			return o
		}
		if cpu.Interrupt == nil || (c.Kind != "nmi" && !cpu.IFF1) {
			done = true
			break
		}
	}
	if !done {
		o.msg = "driven by Run after the request: the request is still pending and acceptable after six calls"
		return o
	}
	o.accepted = cpu.Interrupt == nil
	if o.accepted {
		o.nAcc = 1
	}
	got, want := cpu.States, ref.st
	got.IR.Lo, want.IR.Lo = got.IR.Lo&0x80, want.IR.Lo&0x80
	if got.PC > p.L.Halt && got.PC <= p.L.Halt+2 && parkedAtInjection {
		got.PC = p.L.Halt
	}
	if got != want {
		g, w := stFromStates(got), stFromStates(want)
		o.msg = "driven by Run after the request: final state differs from the uninterrupted run: " + fmtStateDiff(&g, &w)
		return o
	}
	if int(r.m.m[p.L.Cnt]) != o.nAcc {
		o.msg = fmt.Sprintf("driven by Run after the request: handler ran %d times for %d accepted requests", r.m.m[p.L.Cnt], o.nAcc)
		return o
	}
	// memory outside the counter and a window below the stack pointer the program had when the request was raised
	// (where exactly the acceptance happened is not observed here)
	r.m.m[p.L.Cnt] = r.m0.m[p.L.Cnt]
	for i := uint16(1); i <= 96; i++ {
		r.m.m[sp0-i] = r.m0.m[sp0-i]
	}
	for i := uint16(0); i < 32; i++ {
		r.m.m[sp0+i] = r.m0.m[sp0+i]
	}
	if r.m.m != r.m0.m {
		for a := 0; a < 65536; a++ {
			if r.m.m[a] != r.m0.m[a] {
				o.msg = fmt.Sprintf("driven by Run after the request: memory differs from the uninterrupted run at %04x: %02x want %02x", a, r.m.m[a], r.m0.m[a])
				return o
			}
		}
	}
	if len(r.m.outs) != len(ref.outs) {
		o.msg = "driven by Run after the request: port output differs from the uninterrupted run"
	}
	return o
}

func stFromStates(s z80.States) (r stateView) {
	var c z80.CPU
	c.States = s
	return stateView(eng.FromCPU(&c))
}

func (r *c07Rig) runCase(c *c07Case) c07Outcome {
	c.Prog.buildImage(&r.base)
	_, im, _ := r.request(c)
	ref := r.undisturbed(&c.Prog, im)
	if !ref.valid {
		return c07Outcome{msg: "HARNESS: program does not terminate"}
	}
	// re-run the reference so that m0 holds its final memory
	return r.inject(c, &ref)
}

func init() {
	replayers["transparent"] = func(prop string, raw json.RawMessage) (string, error) {
		var c c07Case
		if err := json.Unmarshal(raw, &c); err != nil {
			return "", err
		}
		r := &c07Rig{}
		o := r.runCase(&c)
		return o.msg, nil
	}
}

func TestC07(t *testing.T) {
	col := stats.New("C07")
	col.Sub = "transparent"
	defer finish(t, col)
	col.Rule = "grammar-generated register-transparent programs (ALU/load code, data-window accesses, PUSH/POP, subroutine calls, DJNZ loops, LDIR/LDDR/CPIR/CPDR/INIR/OTIR.., DI..EI sections, " +
		"conditional jumps, final HALT; three layouts incl. code running through 0xFFFF->0x0000 and a stack wrapping below 0x0000) x every injection point k in 0..N+2 (enumerated per program) x " +
		"{NMI, IM1 (half of the programs with a request that carries a bus byte), IM2 with drawn vector and I, IM0+RST p, IM0+CALL nn}, generated handlers (PUSH AF; ...; POP AF; EI; RETI / RETN); oracle = metamorphic: final registers, flags, IFF, HALT, " +
		"memory outside the stack bytes below SP and port output equal the uninterrupted run, handler ran exactly once (or the request is still pending when never enabled), and the word pushed " +
		"on acceptance is the PC of the first instruction not yet executed; six more injection points per kind on the bundled DumbMemory and / or with the host driving by Run after the request (end of the run compared); non-trivial = request accepted while the program is running; distinct by hash(program, k, kind)"
	rig := &c07Rig{}
	var focus *c07Case
	rapid.Check(t, func(t *rapid.T) {
		p := genProgram(t, env.Pick(14, 24))
		// the project ignores the least significant bit of the vector byte; odd bytes are drawn too
		vec := int(rapid.Uint8().Draw(t, "vector"))
		rst := rapid.IntRange(0, 7).Draw(t, "rst")
		if rst == 0 && p.L.NoRST0 {
			rst = 7
		}
		p.buildImage(&rig.base)
		ph := stats.Hash(p.Seed, uint64(p.L.CodeEnd), uint64(p.L.Org))
		for _, c := range p.Bytes[:1] {
			for _, b := range c.Code {
				ph = stats.Hash(ph, uint64(b))
			}
		}
		for tag := range p.Tags {
			col.Label("program:" + tag)
		}
		if focus != nil {
			// shrinking: stay on the failing kind / injection point, with the matching reference run
			c := *focus
			c.Prog = *p
			_, im, _ := rig.request(&c)
			ref := rig.undisturbed(p, im)
			if !ref.valid {
				return
			}
			if c.K > ref.n+2 {
				c.K = ref.n + 2
			}
			o := rig.inject(&c, &ref)
			if o.msg != "" && !o.known {
				violation(t, "C07", "transparent", c, "same outcome as the uninterrupted run", c.Kind+fmt.Sprintf(" at k=%d: ", c.K)+o.msg)
			}
			return
		}
		for _, kind := range []string{"nmi", "im1", "im2", "im0rst", "im0call"} {
			c := c07Case{Prog: *p, Kind: kind}
			switch kind {
			case "im2":
				c.Arg = vec
			case "im0rst":
				c.Arg = rst
			case "im1":
				if vec&1 == 1 {
					c.Arg = []int{0xFF, 0x10, 0x00 + 1, vec}[vec>>1&3] // the request carries a bus byte (RST 38H, DJNZ, ...): ignored in mode 1
				}
			}
			_, im, _ := rig.request(&c)
			ref := rig.undisturbed(p, im)
			if !ref.valid {
				col.Label("discarded:non-terminating")
				return
			}
			col.LabelN("program-steps", int64(ref.n))
			for k := 0; k <= ref.n+2; k++ {
				c.K = k
				o := rig.inject(&c, &ref)
				col.Eval(1)
				for i := 0; i < o.repaired; i++ {
					col.Known(sigIm0, c06Known[sigIm0])
					col.Label("known-finding:return-address-compensated,run-decided")
				}
				if o.known {
					col.Known(sigIm0, c06Known[sigIm0])
					continue
				}
				if o.msg != "" {
					cc := c
					focus = &cc
					violation(t, "C07", "transparent", c, "same outcome as the uninterrupted run", c.Kind+fmt.Sprintf(" at k=%d: ", c.K)+o.msg)
				}
				for _, l := range o.labels {
					col.Label(l)
				}
				col.Label("kind:" + kind)
				if o.accepted && k < ref.n {
					h := stats.Hash(ph, uint64(k), uint64(len(kind)), uint64(c.Arg))
					col.Distinct(h)
					if col.WantSample(h) && len(p.Bytes[0].Code) < 80 {
						col.Sample(h, c)
					}
				} else if !o.accepted {
					col.Label("never-accepted")
				}
			}
			// the same on the bundled DumbMemory, and with the host driving by Run after the request (not for mode 0:
			// under the known finding the return address has to be put right Step by Step)
			for j := 0; j < 6; j++ {
				c.K = int(stats.Hash(ph, uint64(j), 0xD0, uint64(len(kind))) % uint64(ref.n+3))
				c.Dumb = j%2 == 0
				c.ByRun = j >= 2 && kind != "im0rst" && kind != "im0call"
				if !c.Dumb && !c.ByRun {
					continue
				}
				o := rig.inject(&c, &ref)
				col.Eval(1)
				for i := 0; i < o.repaired; i++ {
					col.Known(sigIm0, c06Known[sigIm0])
				}
				if o.known {
					col.Known(sigIm0, c06Known[sigIm0])
					continue
				}
				if o.msg != "" {
					cc := c
					focus = &cc
					violation(t, "C07", "transparent", c, "same outcome as the uninterrupted run", c.Kind+fmt.Sprintf(" at k=%d: ", c.K)+o.msg)
				}
				if c.Dumb {
					col.Label("machine:DumbMemory")
				}
				if c.ByRun {
					col.Label("driven-by-Run-after-the-request")
					if c.K >= ref.n {
						col.Label("driven-by-Run-after-the-request:parked")
					}
				}
			}
			c.Dumb, c.ByRun = false, false
			// a second request later in the same run, on the CPU value that has already served the first
			seconds := map[string][]string{"nmi": {"nmi", "im0rst", "im0call"}, "im0rst": {"nmi", "im0rst", "im0call"}, "im0call": {"nmi", "im0rst", "im0call"},
				"im1": {"nmi", "im1"}, "im2": {"nmi", "im2"}}[kind]
			for j := 0; j < 4; j++ {
				c.K = int(stats.Hash(ph, uint64(j), uint64(len(kind))) % uint64(ref.n+1))
				c.Second = seconds[int(stats.Hash(ph, uint64(j), 7)%uint64(len(seconds)))]
				c.Gap = int(stats.Hash(ph, uint64(j), 9) % 12)
				switch c.Second {
				case "im0rst":
					c.Arg2 = rst
				case "im2":
					c.Arg2 = vec ^ 0x5A
				}
				o := rig.inject(&c, &ref)
				col.Eval(1)
				for i := 0; i < o.repaired; i++ {
					col.Known(sigIm0, c06Known[sigIm0])
				}
				if o.known {
					col.Known(sigIm0, c06Known[sigIm0])
					continue
				}
				if o.msg != "" {
					cc := c
					focus = &cc
					violation(t, "C07", "transparent", c, "same outcome as the uninterrupted run", fmt.Sprintf("%s at k=%d, then %s: ", c.Kind, c.K, c.Second)+o.msg)
				}
				if o.nAcc == 2 {
					col.Label("two-requests-served-on-one-cpu")
					col.Distinct(stats.Hash(ph, uint64(c.K), uint64(c.Gap), uint64(len(kind)), uint64(len(c.Second))))
				}
			}
			c.Second, c.Gap, c.Arg2 = "", 0, 0
		}
	})
}
