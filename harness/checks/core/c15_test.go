package core

import (
	"encoding/json"
	"fmt"
	"testing"

	"github.com/koron-go/z80"
	"github.com/koron-go/z80/verifharness/stats"
	"pgregory.net/rapid"
)

// C15 — the bundled memory and port types behave as plain byte stores with
// safe bounds. Oracle: trivial array / map models.

type c15Op struct {
	Op   string `json:"op"`
	V    int    `json:"v"` // which live value (MapMemory pool)
	W    int    `json:"w"` // second value (Equal, Clone destination)
	Addr int    `json:"addr"`
	Data []int  `json:"data,omitempty"`
}

type c15Case struct {
	Type string  `json:"type"` // DumbMemory | DumbIO | MapMemory
	Len  int     `json:"len"`
	Ops  []c15Op `json:"ops"`
}

// c15Play re-runs a recorded history; "" = agrees with the model.
func c15Play(c *c15Case) (msg string, nt bool) {
	defer func() {
		if p := recover(); p != nil {
			msg = fmt.Sprintf("panic: %v", p)
		}
	}()
	switch c.Type {
	case "DumbMemory":
		dm := make(z80.DumbMemory, c.Len)
		model := make([]uint8, c.Len)
		touched := map[int]bool{0: true, c.Len - 1: true, c.Len: true, c.Len + 1: true, 65535: true}
		check := func(i int) string {
			for a := range touched {
				if a < 0 || a > 65535 {
					continue
				}
				var want uint8
				if a < c.Len {
					want = model[a]
				}
				if got := dm.Get(uint16(a)); got != want {
					return fmt.Sprintf("after op %d: DumbMemory(len %d).Get(%#04x)=%02x want %02x", i, c.Len, a, got, want)
				}
			}
			if len(dm) != c.Len {
				return fmt.Sprintf("after op %d: length changed to %d", i, len(dm))
			}
			return ""
		}
		for i, op := range c.Ops {
			a := op.Addr & 0xffff
			switch op.Op {
			case "Set":
				dm.Set(uint16(a), uint8(op.Data[0]))
				if a < c.Len {
					model[a] = uint8(op.Data[0])
				} else {
					nt = true
				}
				touched[a] = true
			case "Get":
				touched[a] = true
				if a >= c.Len {
					nt = true
				}
			case "PutSelf":
				// the block is a piece of the memory itself (op.V = source offset, op.W = length): a move inside the store
				src, n := op.V, op.W
				if src+n > c.Len || a+n > c.Len {
					continue
				}
				tmp := append([]uint8(nil), model[src:src+n]...)
				dm.Put(uint16(a), dm[src:src+n]...)
				copy(model[a:a+n], tmp)
				for k := 0; k < n; k++ {
					touched[a+k] = true
					touched[src+k] = true
				}
				if src < a && a < src+n {
					nt = true
				}
			case "Put":
				if a+len(op.Data) > c.Len {
					continue // outside the property's domain (block must lie inside the slice)
				}
				r := dm.Put(uint16(a), toBytes(op.Data)...)
				for k, b := range op.Data {
					model[a+k] = uint8(b)
					touched[a+k] = true
				}
				// the value Put returns is used for chaining and assignment (mem := make(DumbMemory, n).Put(...)): it is
				// the memory, so it must read like the receiver everywhere (that it shares storage is not demanded)
				for k, b := range op.Data {
					if r.Get(uint16(a+k)) != uint8(b) {
						return fmt.Sprintf("op %d: the value returned by Put does not hold the block", i), nt
					}
				}
				for p := range touched {
					if p < 0 || p > 65535 {
						continue
					}
					var want uint8
					if p < c.Len {
						want = model[p]
					}
					if got := r.Get(uint16(p)); got != want {
						return fmt.Sprintf("op %d: the value returned by Put reads %02x at %#04x, the memory holds %02x", i, got, p, want), nt
					}
				}
			}
			if m := check(i); m != "" {
				return m, nt
			}
		}
	case "DumbIO":
		dio := make(z80.DumbIO, c.Len)
		model := make([]uint8, c.Len)
		for i, op := range c.Ops {
			a := op.Addr & 0xff
			if op.Op == "Out" {
				dio.Out(uint8(a), uint8(op.Data[0]))
				if a < c.Len {
					model[a] = uint8(op.Data[0])
				} else {
					nt = true
				}
			} else if a >= c.Len {
				nt = true
			}
			for p := 0; p < 256; p++ {
				var want uint8
				if p < c.Len {
					want = model[p]
				}
				if got := dio.In(uint8(p)); got != want {
					return fmt.Sprintf("after op %d: DumbIO(len %d).In(%#02x)=%02x want %02x", i, c.Len, p, got, want), nt
				}
			}
		}
	case "MapMemory":
		pool := []z80.MapMemory{{}}
		models := []map[uint16]uint8{{}}
		cleared := false
		for i, op := range c.Ops {
			v := op.V % len(pool)
			w := op.W % len(pool)
			a := uint16(op.Addr)
			switch op.Op {
			case "Set":
				pool[v].Set(a, uint8(op.Data[0]))
				models[v][a] = uint8(op.Data[0])
				if cleared {
					nt = true
				}
			case "Put":
				r := pool[v].Put(a, toBytes(op.Data)...)
				for k, b := range op.Data {
					models[v][a+uint16(k)] = uint8(b)
				}
				if cleared {
					nt = true
				}
				for k := range op.Data { // the returned value (used for chaining) must hold the block; the receiver is read back below
					if x := a + uint16(k); r.Get(x) != models[v][x] {
						return fmt.Sprintf("op %d: the value returned by Put does not hold the block (address %#04x)", i, x), nt
					}
				}
				if len(op.Data) >= 65536 {
					nt = true
				}
				if len(op.Data) > 0 && int(a)+len(op.Data) > 65536 {
					nt = true
				}
			case "Clone":
				cl := pool[v].Clone()
				m := map[uint16]uint8{}
				for k, x := range models[v] {
					m[k] = x
				}
				if len(pool) < 4 {
					pool, models = append(pool, cl), append(models, m)
				} else {
					pool[w], models[w] = cl, m
				}
				cleared = true
			case "Clear":
				// a second handle on the same memory (the CPU's Memory field, a by-value parameter) sees it emptied too
				alias := pool[v]
				pool[v].Clear()
				for k := range models[v] {
					if g := alias.Get(k); g != 0xC7 {
						return fmt.Sprintf("op %d: after Clear another handle on the same memory still reads %02x at %#04x", i, g, k), nt
					}
				}
				if len(models[v]) > 0 {
					nt = true
				}
				models[v] = map[uint16]uint8{}
				cleared = true
			case "ReadOnly":
				// reading is not writing: after Gets of written and unwritten addresses the memory still equals the clone
				// taken before them (whatever Equal makes of explicit-default entries, both sides have the same)
				cl := pool[v].Clone()
				for _, k := range []uint16{a, a + 1, a - 1, 0, 0xFFFF, uint16(op.W) * 257} {
					want, ok := models[v][k]
					if !ok {
						want = 0xC7
					}
					if g := pool[v].Get(k); g != want {
						return fmt.Sprintf("op %d: Get(%#04x)=%02x want %02x", i, k, g, want), nt
					}
				}
				if !pool[v].Equal(cl) || !cl.Equal(pool[v]) {
					return fmt.Sprintf("op %d: after nothing but Gets the memory is no longer Equal to the clone taken before them", i), nt
				}
				nt = true
			case "EqualNil":
				// "Equal is true exactly for initialised MapMemory values": an uninitialised operand makes it false
				// (nil against nil is not asserted)
				var none z80.MapMemory
				if pool[v].Equal(none) || none.Equal(pool[v]) {
					return fmt.Sprintf("op %d: Equal is true between an initialised value (%d entries) and an uninitialised MapMemory", i, len(models[v])), nt
				}
				if len(models[v]) == 0 {
					nt = true
				}
			case "Equal":
				got := pool[v].Equal(pool[w])
				same := len(models[v]) == len(models[w])
				if same {
					for k, x := range models[v] {
						if y, ok := models[w][k]; !ok || y != x {
							same = false
							break
						}
					}
				}
				// explicit entries holding the default value vs absent entries: not asserted (ambiguous)
				amb := false
				if !same {
					amb = true
					for _, pair := range [][2]map[uint16]uint8{{models[v], models[w]}, {models[w], models[v]}} {
						for k, x := range pair[0] {
							y, ok := pair[1][k]
							if !ok {
								y = 0xC7
							}
							if x != y {
								amb = false
							}
						}
					}
				}
				if !amb && got != same {
					return fmt.Sprintf("op %d: Equal=%v want %v", i, got, same), nt
				}
				// other dynamic types are never equal
				ptr := pool[v].Clone() // a pointer to a MapMemory with the same contents is not a MapMemory value either
				if pool[v].Equal(map[uint16]uint8(pool[v])) || pool[v].Equal(z80.DumbMemory{}) || pool[v].Equal(42) || pool[v].Equal(&ptr) || pool[v].Equal(nil) {
					return fmt.Sprintf("op %d: Equal is true for a value that is not a MapMemory", i), nt
				}
			}
			// every value agrees with its model on all addresses either knows, plus neighbours
			for pi := range pool {
				probe := []uint16{0, 0xFFFF, a, a + 1, a - 1, a + uint16(len(op.Data))}
				if len(models[pi]) <= 4096 {
					for k := range models[pi] {
						probe = append(probe, k)
					}
				} else { // after a huge Put: a moving comb over the whole address space instead of every entry
					for k := 0; k < 256; k++ {
						probe = append(probe, uint16(k*257+i*31))
					}
				}
				for _, k := range probe {
					want, ok := models[pi][k]
					if !ok {
						want = 0xC7
					}
					if got := pool[pi].Get(k); got != want {
						return fmt.Sprintf("after op %d: value %d Get(%#04x)=%02x want %02x", i, pi, k, got, want), nt
					}
				}
			}
		}
	}
	return "", nt
}

func init() {
	replayers["mem"] = func(prop string, raw json.RawMessage) (string, error) {
		var c c15Case
		if err := json.Unmarshal(raw, &c); err != nil {
			return "", err
		}
		m, _ := c15Play(&c)
		return m, nil
	}
}

func TestC15(t *testing.T) {
	col := stats.New("C15")
	col.Sub = "mem"
	defer finish(t, col)
	col.Rule = "rapid-generated operation histories: DumbMemory of length in {0,1,2,255,256,257,65535,65536,random} with Get/Set anywhere in 0..65535 (biased to len-1, len, len+1) and Put of blocks inside the slice; " +
		"DumbIO of length 0..300 over all 256 ports; MapMemory pools of up to four live values with Set/Put (blocks wrapping past 0xFFFF, now and then 65535..65600 bytes)/Clone/Clear (seen through a second handle)/Equal (also against an uninitialised value, and against a clone after nothing but reads); after every operation all touched addresses, " +
		"their neighbours and the ends of the address space are read back and compared with an array / map model; Equal compared with model equality (explicit-default vs absent entries not asserted) and must be false " +
		"for other dynamic types; non-trivial = history with an out-of-range access (slice types) or writes after Clone/Clear or a wrapping Put (map); distinct by hash(history)"
	rapid.Check(t, func(t *rapid.T) {
		var c c15Case
		c.Type = rapid.SampledFrom([]string{"DumbMemory", "DumbIO", "MapMemory"}).Draw(t, "type")
		nops := rapid.IntRange(1, 30).Draw(t, "nops")
		byteData := func(n int) []int {
			d := make([]int, n)
			for i := range d {
				d[i] = int(rapid.Uint8().Draw(t, "b"))
			}
			return d
		}
		switch c.Type {
		case "DumbMemory":
			c.Len = rapid.OneOf(rapid.SampledFrom([]int{0, 1, 2, 255, 256, 257, 65535, 65536}), rapid.IntRange(0, 65536)).Draw(t, "len")
			addr := rapid.OneOf(rapid.SampledFrom([]int{0, 1, c.Len - 2, c.Len - 1, c.Len, c.Len + 1, 65535, 65534}), rapid.IntRange(0, 65535))
			for i := 0; i < nops; i++ {
				op := c15Op{Op: rapid.SampledFrom([]string{"Set", "Set", "Get", "Put", "Put", "PutSelf"}).Draw(t, "op")}
				op.Addr = addr.Draw(t, "addr") & 0xffff
				switch op.Op {
				case "Set":
					op.Data = byteData(1)
				case "PutSelf":
					// overlapping moves in both directions, a few bytes apart
					op.W = rapid.IntRange(1, 12).Draw(t, "n")
					op.V = op.Addr + rapid.IntRange(-8, 8).Draw(t, "delta")
					if op.V < 0 {
						op.V = 0
					}
				case "Put":
					room := c.Len - op.Addr
					if room < 0 {
						room = 0
					}
					if room > 12 {
						room = 12
					}
					op.Data = byteData(rapid.IntRange(0, room).Draw(t, "putLen"))
				}
				c.Ops = append(c.Ops, op)
			}
		case "DumbIO":
			c.Len = rapid.OneOf(rapid.SampledFrom([]int{0, 1, 255, 256, 257, 300}), rapid.IntRange(0, 300)).Draw(t, "len")
			addr := rapid.OneOf(rapid.SampledFrom([]int{0, c.Len - 1, c.Len, c.Len + 1, 255}), rapid.IntRange(0, 255))
			for i := 0; i < nops; i++ {
				op := c15Op{Op: rapid.SampledFrom([]string{"Out", "In"}).Draw(t, "op"), Addr: addr.Draw(t, "port") & 0xff}
				if op.Op == "Out" {
					op.Data = byteData(1)
				}
				c.Ops = append(c.Ops, op)
			}
		default:
			// few addresses and few byte values (incl. the default 0xC7), so that the same cell is reached through
			// Set on one value and through Put on another, and equal contents come about in different ways
			addr := rapid.OneOf(rapid.SampledFrom([]int{0, 1, 2, 0xFFFE, 0xFFFF, 0x8000, 0x7FFF, 0x0100}), rapid.IntRange(0, 65535))
			val := rapid.SampledFrom([]int{0x00, 0xC7, 0xC7, 0x01, 0xFF})
			for i := 0; i < nops; i++ {
				op := c15Op{Op: rapid.SampledFrom([]string{"Set", "Set", "Put", "Put", "Clone", "Clear", "Equal", "Equal", "Equal", "EqualNil", "ReadOnly"}).Draw(t, "op")}
				op.V, op.W = rapid.IntRange(0, 3).Draw(t, "v"), rapid.IntRange(0, 3).Draw(t, "w")
				op.Addr = addr.Draw(t, "addr")
				switch op.Op {
				case "Set":
					op.Data = []int{val.Draw(t, "val")}
				case "Put":
					n := rapid.IntRange(0, 3).Draw(t, "putLen")
					for j := 0; j < n; j++ {
						op.Data = append(op.Data, val.Draw(t, "val"))
					}
					switch rapid.IntRange(0, 11).Draw(t, "longPut") {
					case 0:
						op.Data = append(op.Data, byteData(rapid.IntRange(1, 6).Draw(t, "more"))...)
					case 1: // a big block (also onto an empty or just cleared value); now and then a whole address space and more
						n := rapid.SampledFrom([]int{255, 256, 257, 600, 1024}).Draw(t, "big")
						if rapid.IntRange(0, 39).Draw(t, "huge") == 0 {
							n = rapid.SampledFrom([]int{65535, 65536, 65537, 65600}).Draw(t, "hugeLen")
						}
						for j := 0; j < n; j++ {
							op.Data = append(op.Data, (j*7+op.Addr)&0xff)
						}
					}
				}
				c.Ops = append(c.Ops, op)
			}
		}
		msg, nt := c15Play(&c)
		col.Eval(1)
		if msg != "" {
			violation(t, "C15", "mem", c, "array / map model", msg)
		}
		col.Label("type:" + c.Type)
		if nt {
			h := uint64(len(c.Type))<<32 | uint64(c.Len)
			for _, op := range c.Ops {
				h = stats.Hash(h, uint64(len(op.Op)), uint64(op.Addr), uint64(op.V)<<8|uint64(op.W), uint64(len(op.Data)))
				for _, b := range op.Data {
					h = stats.Hash(h, uint64(b))
				}
			}
			col.Distinct(h)
			if col.WantSample(h) && len(c.Ops) <= 8 && len(c.Ops[0].Data) < 32 {
				col.Sample(h, c)
			}
		}
	})
}
