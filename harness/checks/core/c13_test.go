package core

import (
	"context"
	"encoding/json"
	"fmt"
	"runtime"
	"sync/atomic"
	"testing"
	"time"

	"github.com/koron-go/z80"
	"github.com/koron-go/z80/verifharness/stats"
	"pgregory.net/rapid"
)

// C13 — Run honours cancellation promptly, at an instruction boundary, without
// leaking goroutines and without data races (this package is built with -race
// for this property).

type c13Case struct {
	Loop    string   `json:"loop,omitempty"` // jr | jp | nops | ldir | otir | djnz  (non-terminating), or "" with Prog
	Prog    *program `json:"program,omitempty"`
	PC      uint16   `json:"pc"`
	Instant string   `json:"instant"` // pre | hook | timer | timeout | never
	N       int      `json:"n"`       // hook: access count; timer/timeout: microseconds
}

type c13Rig struct {
	base  [65536]uint8
	m, tm progMachine
	cpu   z80.CPU
	twin  z80.CPU
	// poisoned: makes the machine end the goroutine that runs a hung Run
	poisoned int32
}

func (r *c13Rig) load(c *c13Case) {
	if c.Prog != nil {
		c.Prog.buildImage(&r.base)
		return
	}
	for i := range r.base {
		r.base[i] = 0
	}
	at := c.PC
	put := func(b ...uint8) {
		for _, x := range b {
			r.base[at] = x
			at++
		}
	}
	switch c.Loop {
	case "jr":
		put(0x18, 0xFE)
	case "jp":
		put(0xC3, uint8(c.PC), uint8(c.PC>>8))
	case "nops":
	case "ldir": // LD HL,0x4000; LD DE,0x5000; LD BC,0; LDIR; JP start
		put(0x21, 0x00, 0x40, 0x11, 0x00, 0x50, 0x01, 0x00, 0x00, 0xED, 0xB0, 0xC3, uint8(c.PC), uint8(c.PC>>8))
	case "otir": // LD HL,0x4000; LD BC,0x0007; OTIR; JR start
		put(0x21, 0x00, 0x40, 0x01, 0x07, 0x00, 0xED, 0xB3, 0x18, 0xF6)
	case "djnz": // LD B,0; DJNZ $; JR start
		put(0x06, 0x00, 0x10, 0xFE, 0x18, 0xFA)
	}
}

func (r *c13Rig) initCPU(c *c13Case, cpu *z80.CPU, m *progMachine) {
	if c.Prog != nil {
		m.reset(&r.base, c.Prog.Seed^0x30)
		c.Prog.initCPU(cpu, m)
		cpu.IM = 1
		return
	}
	m.reset(&r.base, 7)
	*cpu = z80.CPU{Memory: m, IO: m}
	cpu.PC, cpu.SP = c.PC, 0x8000
}

type c13Outcome struct {
	msg   string
	steps int  // whole Steps executed by Run (from the twin)
	mid   bool // interrupted mid-program
	err   error
}

func (r *c13Rig) run(c *c13Case) c13Outcome {
	var o c13Outcome
	r.load(c)
	r.initCPU(c, &r.cpu, &r.m)
	atomic.StoreInt32(&r.poisoned, 0)
	parent := context.Background()
	var ctx context.Context
	var cancel context.CancelFunc
	var cancelledAt int64 // unix nanos, 0 = not yet
	mark := func() { atomic.CompareAndSwapInt64(&cancelledAt, 0, time.Now().UnixNano()) }
	switch c.Instant {
	case "timeout":
		d := time.Duration(c.N) * time.Microsecond
		ctx, cancel = context.WithTimeout(parent, d)
		atomic.StoreInt64(&cancelledAt, time.Now().Add(d).UnixNano())
	default:
		ctx, cancel = context.WithCancel(parent)
	}
	defer cancel()
	var timer *time.Timer
	switch c.Instant {
	case "pre":
		mark()
		cancel()
	case "hook":
		n := c.N
		r.m.hook = func(k int) {
			if k == n {
				mark()
				cancel()
			}
			if atomic.LoadInt32(&r.poisoned) != 0 {
				runtime.Goexit()
			}
		}
	case "timer":
		timer = time.AfterFunc(time.Duration(c.N)*time.Microsecond, func() { mark(); cancel() })
	}
	if r.m.hook == nil {
		r.m.hook = func(int) {
			if atomic.LoadInt32(&r.poisoned) != 0 {
				runtime.Goexit()
			}
		}
	}
	done := make(chan error, 1)
	go func() {
		defer func() {
			// Goexit path: never sends; the waiter has given up already
		}()
		done <- r.cpu.Run(ctx)
	}()
	var err error
	select {
	case err = <-done:
	case <-time.After(20 * time.Second):
		atomic.StoreInt32(&r.poisoned, 1)
		if timer != nil {
			timer.Stop()
		}
		if c.Instant == "never" {
			o.msg = "HARNESS: terminating program did not finish"
			return o
		}
		o.msg = fmt.Sprintf("Run did not return within 20 s although its context was cancelled (%s)", c.Instant)
		return o
	}
	returned := time.Now().UnixNano()
	if timer != nil {
		timer.Stop()
	}
	o.err = err
	ctxErr := ctx.Err()
	terminating := c.Prog != nil
	switch {
	case err == nil:
		if !terminating {
			o.msg = "Run returned nil on a program that never halts"
			return o
		}
	case err == ctxErr:
		// fine
	default:
		o.msg = fmt.Sprintf("Run returned %v, context error is %v", err, ctxErr)
		return o
	}
	if err != nil {
		if at := atomic.LoadInt64(&cancelledAt); at != 0 && returned-at > int64(10*time.Second) {
			o.msg = fmt.Sprintf("Run returned %v after the cancellation", time.Duration(returned-at))
			return o
		}
		want := context.Canceled
		if c.Instant == "timeout" {
			want = context.DeadlineExceeded
		}
		if err != want {
			o.msg = fmt.Sprintf("Run returned %v, want %v", err, want)
			return o
		}
	}
	// whole number of Steps: replay with Step until the same number of accesses
	r.initCPU(c, &r.twin, &r.tm)
	target := r.m.nAcc
	steps := 0
	for r.tm.nAcc < target {
		r.twin.Step()
		steps++
	}
	o.steps = steps
	if r.tm.nAcc != target {
		o.msg = fmt.Sprintf("Run stopped after %d accesses, which is inside Step %d (Steps end at %d accesses)", target, steps, r.tm.nAcc)
		return o
	}
	if r.cpu.States != r.twin.States {
		g, w := stFromStates(r.cpu.States), stFromStates(r.twin.States)
		o.msg = fmt.Sprintf("state after cancelled Run differs from %d whole Steps: %s", steps, fmtStateDiff(&g, &w))
		return o
	}
	if r.m.m != r.tm.m {
		o.msg = fmt.Sprintf("memory after cancelled Run differs from %d whole Steps", steps)
		return o
	}
	o.mid = err != nil && steps >= 1
	return o
}

func init() {
	replayers["cancel"] = func(prop string, raw json.RawMessage) (string, error) {
		var c c13Case
		if err := json.Unmarshal(raw, &c); err != nil {
			return "", err
		}
		r := &c13Rig{}
		return r.run(&c).msg, nil
	}
}

func TestC13(t *testing.T) {
	col := stats.New("C13")
	col.Sub = "cancel"
	defer finish(t, col)
	col.Rule = "batches of Run calls over {JR $, JP self, 64 KiB of NOPs, LDIR with BC=0 + jump back, OTIR loop, DJNZ loop, terminating grammar programs} x cancellation instants {before the call, " +
		"from a bus callback at access n (instant owned by the harness), from a timer goroutine, WithTimeout 0..2 ms, never}; built with -race; oracle = returned error is exactly the context's error " +
		"(or the natural result for terminating programs), return within 10 s of the cancellation (normal: microseconds), final state and memory equal a Step-driven twin stopped at the same access count " +
		"(whole number of Steps), goroutine count back to baseline after every batch, no race report; non-trivial = Run interrupted after >= 1 Step; distinct by hash(program, instant, n, Steps executed)"
	rig := &c13Rig{}
	batch := env.Pick(40, 200)
	rapid.Check(t, func(t *rapid.T) {
		base := runtime.NumGoroutine()
		for i := 0; i < batch; i++ {
			var c c13Case
			kind := rapid.IntRange(0, 7).Draw(t, "program")
			if kind >= 6 {
				c.Prog = genProgram(t, 8)
				c.Instant = rapid.SampledFrom([]string{"pre", "hook", "timer", "timeout", "never", "never"}).Draw(t, "instant")
			} else {
				c.Loop = []string{"jr", "jp", "nops", "ldir", "otir", "djnz"}[kind]
				c.PC = rapid.SampledFrom([]uint16{0x0100, 0xFFFE, 0x0000, 0x7000}).Draw(t, "pc")
				c.Instant = rapid.SampledFrom([]string{"pre", "hook", "hook", "timer", "timeout"}).Draw(t, "instant")
			}
			switch c.Instant {
			case "hook":
				c.N = rapid.IntRange(1, 3000).Draw(t, "hookAt")
			case "timer", "timeout":
				c.N = rapid.IntRange(0, 2000).Draw(t, "micros")
			}
			o := rig.run(&c)
			col.Eval(1)
			if o.msg != "" {
				violation(t, "C13", "cancel", c, "context error, whole Steps, bounded delay", o.msg)
			}
			col.Label("instant:" + c.Instant)
			switch o.err {
			case nil:
				col.Label("return:halt")
			case context.Canceled:
				col.Label("return:canceled")
			case context.DeadlineExceeded:
				col.Label("return:deadline")
			}
			if o.mid {
				h := stats.Hash(uint64(kind), uint64(len(c.Instant)), uint64(c.N), uint64(o.steps), uint64(c.PC))
				col.Distinct(h)
				switch {
				case o.steps < 100:
					col.Label("steps<100")
				case o.steps < 10000:
					col.Label("steps<1e4")
				default:
					col.Label("steps>=1e4")
				}
				if col.WantSample(h) && c.Prog == nil {
					col.Sample(h, c)
				}
			}
		}
		// goroutine accounting: every watcher must be gone
		deadline := time.Now().Add(10 * time.Second)
		for runtime.NumGoroutine() > base+4 && time.Now().Before(deadline) {
			time.Sleep(2 * time.Millisecond)
		}
		if n := runtime.NumGoroutine(); n > base+4 {
			violation(t, "C13", "cancel", map[string]any{"batch": batch}, "goroutine count back to baseline after a batch of Run calls",
				fmt.Sprintf("%d goroutines before a batch of %d Run calls, %d still alive 10 s after it", base, batch, n))
		}
		col.Label("batches")
	})
}
