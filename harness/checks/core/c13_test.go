package core

import (
	"context"
	"encoding/json"
	"errors"
	"fmt"
	"runtime"
	"sync/atomic"
	"testing"
	"time"

	"github.com/koron-go/z80"
	"github.com/koron-go/z80/verifharness/ref"
	"github.com/koron-go/z80/verifharness/stats"
	"pgregory.net/rapid"
)

// C13 — Run honours cancellation promptly, at an instruction boundary, without
// leaking goroutines and without data races (this package is built with -race
// for this property).

type c13Case struct {
	Loop    string   `json:"loop,omitempty"` // jr | jp | nops | ldir | otir | djnz | jpix | ldra | ldirix | body (non-terminating), or "" with Prog
	Prog    *program `json:"program,omitempty"`
	Body    []int    `json:"body,omitempty"`    // loop "body": straight-line bytes, followed by JP start
	R       int      `json:"r"`                 // initial refresh register
	Pending string   `json:"pending,omitempty"` // "int": a maskable request stays pending and masked (IFF1 = 0) for the whole run
	PC      uint16   `json:"pc"`
	Instant string   `json:"instant"` // pre | hook | timer | timeout | never
	N       int      `json:"n"`       // hook: access count; timer/timeout: microseconds
	// Cause: the context carries a cancellation cause (WithCancelCause / WithTimeoutCause); Run must still return the
	// context's error (ctx.Err()), not the cause
	Cause bool `json:"cause,omitempty"`
	// Foreign: Run is handed a context that is not one of the context package's own types (a host's wrapper with its
	// own methods); everything the property says holds for it as well
	Foreign bool `json:"foreign,omitempty"`
	// BP: the CPU has a break point the program never reaches (PC+0x80 for the loops that stay near PC)
	BP bool `json:"bp,omitempty"`
}

// foreignCtx delegates to a context of the standard library but is a type of its own.
type foreignCtx struct{ inner context.Context }

func (f foreignCtx) Deadline() (time.Time, bool) { return f.inner.Deadline() }
func (f foreignCtx) Done() <-chan struct{}       { return f.inner.Done() }
func (f foreignCtx) Err() error                  { return f.inner.Err() }

// Value does not delegate: the context package recognises its own types behind a wrapper through a private key, and
// would then treat the wrapper like one of its own.
func (f foreignCtx) Value(k any) any { return nil }

var errC13Cause = errors.New("operator pressed stop")

type c13Rig struct {
	base  [65536]uint8
	m, tm progMachine
	cpu   z80.CPU
	twin  z80.CPU
	// poisoned: makes the machine end the goroutine that runs a hung Run
	poisoned int32
	hungMsg  string
}

func (r *c13Rig) load(c *c13Case) {
	if c.Prog != nil {
		c.Prog.buildImage(&r.base)
		return
	}
	for i := range r.base {
		r.base[i] = 0
	}
	at := c.PC
	put := func(b ...uint8) {
		for _, x := range b {
			r.base[at] = x
			at++
		}
	}
	switch c.Loop {
	case "jr":
		put(0x18, 0xFE)
	case "jp":
		put(0xC3, uint8(c.PC), uint8(c.PC>>8))
	case "nops":
	case "halt": // the program is over at once
		put(0x76)
	case "nophalt":
		put(0x00, 0x00, 0x76)
	case "ldir": // LD HL,0x4000; LD DE,0x5000; LD BC,0; LDIR; JP start
		put(0x21, 0x00, 0x40, 0x11, 0x00, 0x50, 0x01, 0x00, 0x00, 0xED, 0xB0, 0xC3, uint8(c.PC), uint8(c.PC>>8))
	case "otir": // LD HL,0x4000; LD BC,0x0007; OTIR; JR start
		put(0x21, 0x00, 0x40, 0x01, 0x07, 0x00, 0xED, 0xB3, 0x18, 0xF6)
	case "djnz": // LD B,0; DJNZ $; JR start
		put(0x06, 0x00, 0x10, 0xFE, 0x18, 0xFA)
	case "jpix": // JP (IX) onto itself: only prefixed opcode fetches
		put(0xDD, 0xE9)
	case "ldra": // LD A,1; LD R,A; JR start: R is reloaded every turn
		put(0x3E, 0x01, 0xED, 0x4F, 0x18, 0xFA)
	case "ldirix": // LDIR (BC=0: 65536 elements) ; JP (IX) back: prefixed fetches only
		put(0xED, 0xB0, 0xDD, 0xE9)
	case "body":
		put(toBytes(c.Body)...)
		put(0xC3, uint8(c.PC), uint8(c.PC>>8))
	case "prefixes": // nothing but DD / FD bytes in the whole address space
		for i := range r.base {
			r.base[i] = 0xDD
			if (i*7+c.R)%3 == 0 {
				r.base[i] = 0xFD
			}
		}
	}
}

func (r *c13Rig) initCPU(c *c13Case, cpu *z80.CPU, m *progMachine) {
	if c.Prog != nil {
		m.reset(&r.base, c.Prog.Seed^0x30)
		c.Prog.initCPU(cpu, m)
		cpu.IM = 1
		return
	}
	m.reset(&r.base, 7)
	*cpu = z80.CPU{Memory: m, IO: m}
	cpu.PC, cpu.SP = c.PC, 0x8000
	cpu.IX, cpu.IY = c.PC, c.PC
	cpu.HL.SetU16(0x4000)
	cpu.DE.SetU16(0x5000)
	cpu.IR.Lo = uint8(c.R)
	if c.BP {
		cpu.BreakPoints = map[uint16]struct{}{c.PC + 0x80: {}}
	}
	switch c.Pending {
	case "int":
		cpu.IFF1, cpu.IFF2, cpu.IM = false, false, 1
		cpu.Interrupt = z80.IM1Interrupt()
	case "im0-halt", "im0-jr", "im0-nop", "im0-rst":
		// a mode-0 request that is accepted by the first Step; the device supplies something else than the usual RST
		cpu.IFF1, cpu.IFF2, cpu.IM = true, true, 0
		data := map[string][]uint8{"im0-halt": {0x76}, "im0-jr": {0x18, 0xFE}, "im0-nop": {0x00, 0x00, 0x00}, "im0-rst": {0xFF}}[c.Pending]
		cpu.Interrupt = z80.IM0Interrupt(data[0], data[1:]...)
	}
}

type c13Outcome struct {
	msg   string
	steps int  // whole Steps executed by Run (from the twin)
	mid   bool // interrupted mid-program
	err   error
}

func (r *c13Rig) run(c *c13Case) c13Outcome { return r.runCtx(c, context.Background()) }

// runCtx: parent is the context Run's context derives from; for the instant "never" Run gets parent
// itself, so that nothing the harness does can wake a watcher goroutine Run may have left behind.
func (r *c13Rig) runCtx(c *c13Case, parent context.Context) c13Outcome {
	var o c13Outcome
	if r.hungMsg != "" {
		// a Run call of this process already failed to return: do not wait another 20 s per shrink attempt
		o.msg = r.hungMsg
		return o
	}
	r.load(c)
	r.initCPU(c, &r.cpu, &r.m)
	atomic.StoreInt32(&r.poisoned, 0)
	var ctx context.Context
	var cancel context.CancelFunc
	var cancelledAt int64 // unix nanos, 0 = not yet
	mark := func() { atomic.CompareAndSwapInt64(&cancelledAt, 0, time.Now().UnixNano()) }
	switch c.Instant {
	case "timeout":
		d := time.Duration(c.N) * time.Microsecond
		if c.Cause {
			ctx, cancel = context.WithTimeoutCause(parent, d, errC13Cause)
		} else {
			ctx, cancel = context.WithTimeout(parent, d)
		}
		atomic.StoreInt64(&cancelledAt, time.Now().Add(d).UnixNano())
	case "never":
		ctx, cancel = parent, func() {}
	default:
		if c.Cause {
			var cc context.CancelCauseFunc
			ctx, cc = context.WithCancelCause(parent)
			cancel = func() { cc(errC13Cause) }
		} else {
			ctx, cancel = context.WithCancel(parent)
		}
	}
	defer cancel()
	var timer *time.Timer
	switch c.Instant {
	case "pre":
		mark()
		cancel()
	case "hook":
		n := c.N
		r.m.hook = func(k int) {
			if k == n {
				mark()
				cancel()
			}
			if atomic.LoadInt32(&r.poisoned) != 0 {
				runtime.Goexit()
			}
		}
	case "timer":
		timer = time.AfterFunc(time.Duration(c.N)*time.Microsecond, func() { mark(); cancel() })
	}
	if r.m.hook == nil {
		r.m.hook = func(int) {
			if atomic.LoadInt32(&r.poisoned) != 0 {
				runtime.Goexit()
			}
		}
	}
	if c.Pending == "nmi-storm" {
		// a device that raises a fresh non-maskable request at every bus access: every Step is an acknowledge (whose
		// push raises the next one), and Run is an endless series of such Steps that a cancellation must still end
		inner := r.m.hook
		r.m.hook = func(k int) {
			r.cpu.Interrupt = z80.NMIInterrupt()
			inner(k)
		}
	}
	runCtx := ctx
	if c.Foreign {
		runCtx = foreignCtx{ctx}
	}
	done := make(chan error, 1)
	go func() {
		defer func() {
			// Goexit path: never sends; the waiter has given up already
		}()
		done <- r.cpu.Run(runCtx)
	}()
	var err error
	select {
	case err = <-done:
	case <-time.After(20 * time.Second):
		atomic.StoreInt32(&r.poisoned, 1)
		if timer != nil {
			timer.Stop()
		}
		if c.Instant == "never" {
			o.msg = "HARNESS: terminating program did not finish"
			return o
		}
		o.msg = fmt.Sprintf("Run did not return within 20 s although its context was cancelled (%s)", c.Instant)
		r.hungMsg = o.msg
		return o
	}
	returned := time.Now().UnixNano()
	if timer != nil {
		timer.Stop()
	}
	o.err = err
	ctxErr := ctx.Err()
	switch {
	case err == nil:
		// natural end: decided below (the twin must have executed a HALT at this very point)
	case err == ctxErr:
		// fine
	default:
		o.msg = fmt.Sprintf("Run returned %v, context error is %v", err, ctxErr)
		return o
	}
	if err != nil {
		bound := int64(10 * time.Second)
		if c.Instant == "timer" && c.N >= 500000 {
			bound = int64(300 * time.Millisecond) // a long-run case (TestC13LongRun) being replayed
		}
		if at := atomic.LoadInt64(&cancelledAt); at != 0 && returned-at > bound {
			o.msg = fmt.Sprintf("Run returned %v after the cancellation", time.Duration(returned-at))
			return o
		}
		want := context.Canceled
		if c.Instant == "timeout" {
			want = context.DeadlineExceeded
		}
		if err != want {
			o.msg = fmt.Sprintf("Run returned %v, want %v", err, want)
			return o
		}
	}
	// whole number of Steps: replay with Step until the same number of accesses
	r.initCPU(c, &r.twin, &r.tm)
	if c.Pending == "nmi-storm" {
		r.tm.hook = func(int) { r.twin.Interrupt = z80.NMIInterrupt() }
	}
	target := r.m.nAcc
	steps := 0
	for r.tm.nAcc < target {
		r.twin.Step()
		steps++
	}
	// Steps that make no access at all (a mode-0 acknowledge whose instruction comes from the device) do not
	// move the access count: allow a few more as long as the count stays put
	for extra := 0; extra < 4 && r.tm.nAcc == target && (r.cpu.States != r.twin.States || r.cpu.HALT != r.twin.HALT); extra++ {
		saved, savedM := r.twin, r.tm.nAcc
		r.twin.Step()
		steps++
		if r.tm.nAcc != savedM {
			// that Step did access memory: Run cannot have executed it (memory was not changed by it: the
			// comparison below still sees the state before it)
			r.twin = saved
			steps--
			break
		}
	}
	o.steps = steps
	if r.tm.nAcc != target {
		o.msg = fmt.Sprintf("Run stopped after %d accesses, which is inside Step %d (Steps end at %d accesses)", target, steps, r.tm.nAcc)
		return o
	}
	if err == nil && !r.twin.HALT {
		o.msg = fmt.Sprintf("Run returned nil after %d Steps although no HALT was executed", steps)
		return o
	}
	if r.cpu.States != r.twin.States {
		g, w := stFromStates(r.cpu.States), stFromStates(r.twin.States)
		o.msg = fmt.Sprintf("state after cancelled Run differs from %d whole Steps: %s", steps, fmtStateDiff(&g, &w))
		return o
	}
	if r.m.m != r.tm.m {
		o.msg = fmt.Sprintf("memory after cancelled Run differs from %d whole Steps", steps)
		return o
	}
	o.mid = err != nil && steps >= 1
	return o
}

// haltOrBreak runs a three-instruction program to its HALT (or to a breakpoint in front of it)
// under a context that is never cancelled.
func (r *c13Rig) haltOrBreak(ctx context.Context, bp bool) c13Outcome {
	for i := range r.base {
		r.base[i] = 0
	}
	r.base[0x0102] = 0x76
	r.m.reset(&r.base, 1)
	r.cpu = z80.CPU{Memory: &r.m, IO: &r.m}
	r.cpu.PC = 0x0100
	var want error
	if bp {
		r.cpu.BreakPoints = map[uint16]struct{}{0x0101: {}}
		want = z80.ErrBreakPoint
	}
	if err := r.cpu.Run(ctx); err != want {
		return c13Outcome{msg: fmt.Sprintf("Run returned %v want %v", err, want)}
	}
	return c13Outcome{}
}

// genLoopBody draws a straight-line loop body from the implemented encodings, leaving out everything
// that transfers control, halts, or touches the stack pointer (the body is followed by JP start).
// Stores may still hit the loop itself; the verdict does not depend on the loop staying intact
// (a nil return is accepted exactly when the Step-driven twin executed a HALT at the same point).
func genLoopBody(t *rapid.T) []int {
	var body []int
	n := rapid.IntRange(1, 6).Draw(t, "bodyLen")
	for len(body) < 3*n {
		ei := rapid.IntRange(0, len(loopBodyEncodings)-1).Draw(t, "bodyEnc")
		e := &allEncodings[loopBodyEncodings[ei]]
		ops := [3]uint8{rapid.Uint8().Draw(t, "o1"), rapid.Uint8().Draw(t, "o2"), rapid.Uint8().Draw(t, "o3")}
		b := e.bytes(ops)
		b = b[:modelLen(b)]
		body = append(body, toInts(b)...)
		if len(body) > 40 {
			break
		}
	}
	return body
}

var loopBodyEncodings = func() []int {
	skip := map[string]bool{"JP": true, "JP cc": true, "JR": true, "JR cc": true, "DJNZ": true, "CALL": true, "CALL cc": true, "RET": true, "RET cc": true,
		"RST": true, "HALT": true, "JP (HL)": true, "RETN": true, "RETI": true, "LD SP,HL": true, "POP": true, "PUSH": true, "EX (SP),HL": true}
	var out []int
	for i := range allEncodings {
		e := &allEncodings[i]
		var s refState
		in := ref.Step(&s, &probeBus{e.bytes([3]uint8{})})
		if skip[in.Class] || (len(e.pre) == 1 && (e.pre[0] == 0x31 || e.pre[0] == 0x33 || e.pre[0] == 0x3B)) ||
			(len(e.pre) == 2 && e.pre[0] == 0xED && e.pre[1] == 0x7B) {
			continue
		}
		out = append(out, i)
	}
	return out
}()

func init() {
	replayers["cancel"] = func(prop string, raw json.RawMessage) (string, error) {
		var c c13Case
		if err := json.Unmarshal(raw, &c); err != nil {
			return "", err
		}
		r := &c13Rig{}
		return r.run(&c).msg, nil
	}
}

func TestC13(t *testing.T) {
	col := stats.New("C13")
	col.Sub = "cancel"
	defer finish(t, col)
	col.Rule = "batches of Run calls over {JR $, JP self, 64 KiB of NOPs, LDIR with BC=0 + jump back, OTIR loop, DJNZ loop, terminating grammar programs} x cancellation instants {before the call, " +
		"from a bus callback at access n (instant owned by the harness), from a timer goroutine, WithTimeout 0..2 ms, never}; built with -race; oracle = returned error is exactly the context's error " +
		"(or the natural result for terminating programs), return within 10 s of the cancellation (normal: microseconds), final state and memory equal a Step-driven twin stopped at the same access count " +
		"(whole number of Steps), goroutine count back to baseline after every batch, no race report; non-trivial = Run interrupted after >= 1 Step; distinct by hash(program, instant, n, Steps executed)"
	rig := &c13Rig{}
	batch := env.Pick(40, 200)
	rapid.Check(t, func(t *rapid.T) {
		base := runtime.NumGoroutine()
		// contexts that stay alive until the goroutine accounting is done
		batchCtx, batchCancel := context.WithCancel(context.Background())
		defer batchCancel()
		for i := 0; i < batch; i++ {
			var c c13Case
			kind := rapid.IntRange(0, 7).Draw(t, "program")
			if kind >= 6 {
				c.Prog = genProgram(t, 8)
				c.Instant = rapid.SampledFrom([]string{"pre", "hook", "timer", "timeout", "never", "never"}).Draw(t, "instant")
			} else {
				c.Loop = rapid.SampledFrom([]string{"jr", "jp", "nops", "ldir", "otir", "djnz", "jpix", "ldra", "ldirix", "body", "body", "prefixes", "halt", "nophalt"}).Draw(t, "loop")
				if c.Loop != "body" {
					c.Pending = rapid.SampledFrom([]string{"", "", "", "", "", "", "int", "int", "im0-halt", "im0-jr", "im0-nop", "im0-rst", "nmi-storm"}).Draw(t, "pending")
				}
				c.PC = rapid.SampledFrom([]uint16{0x0100, 0xFFFE, 0x0000, 0x7000}).Draw(t, "pc")
				c.R = int(rapid.OneOf(rapid.SampledFrom([]uint8{0, 1, 0x7F, 0x80, 0xFF}), rapid.Uint8()).Draw(t, "r"))
				if c.Loop == "body" {
					c.PC = 0x0100
					c.Body = genLoopBody(t)
				}
				c.Instant = rapid.SampledFrom([]string{"pre", "hook", "hook", "timer", "timeout"}).Draw(t, "instant")
				if (c.Loop == "halt" || c.Loop == "nophalt") && (c.Pending == "im0-rst" || c.Pending == "im0-jr" || c.Pending == "nmi-storm") {
					c.Pending = "" // (these lead away from the HALT: the program would not be a terminating one)
				}
				if c.Loop == "halt" || c.Loop == "nophalt" {
					// the program is over after one to three Steps: the race between its end and the cancellation
					c.Instant = rapid.SampledFrom([]string{"pre", "pre", "timer", "timeout", "never", "hook"}).Draw(t, "instantShort")
				}
			}
			switch c.Loop {
			case "jr", "jp", "djnz", "jpix", "ldra", "ldir", "otir", "ldirix":
				// (the others run through all of memory, or away through a mode-0 RST)
				// (nor with a mode-0 request: the instruction the device supplies, or where the tree resumes after it, leads out of the loop)
				c.BP = (c.Pending == "" || c.Pending == "int") && rapid.IntRange(0, 2).Draw(t, "bp") == 0
			}
			c.Cause = c.Instant != "never" && rapid.IntRange(0, 3).Draw(t, "cause") == 0
			c.Foreign = rapid.IntRange(0, 3).Draw(t, "foreign") == 0
			switch c.Instant {
			case "hook":
				c.N = rapid.IntRange(1, 3000).Draw(t, "hookAt")
			case "timer", "timeout":
				c.N = rapid.IntRange(0, 2000).Draw(t, "micros")
			}
			if c.Loop == "halt" || c.Loop == "nophalt" {
				c.N = c.N%5 + 1
			}
			parent := context.Background()
			if i%2 == 1 {
				parent = batchCtx
			}
			o := rig.runCtx(&c, parent)
			col.Eval(1)
			if o.msg != "" {
				violation(t, "C13", "cancel", c, "context error, whole Steps, bounded delay", o.msg)
			}
			col.Label("instant:" + c.Instant)
			if c.Cause {
				col.Label("context-with-cause")
			}
			if c.Foreign {
				col.Label("context-of-a-foreign-type")
			}
			if c.BP {
				col.Label("break-point-never-reached")
			}
			if c.Pending != "" {
				col.Label("pending:" + c.Pending)
			}
			switch o.err {
			case nil:
				col.Label("return:halt")
			case context.Canceled:
				col.Label("return:canceled")
			case context.DeadlineExceeded:
				col.Label("return:deadline")
			}
			if o.mid {
				h := stats.Hash(uint64(kind), uint64(len(c.Instant)), uint64(c.N), uint64(o.steps), uint64(c.PC), uint64(c.R), uint64(len(c.Loop)), uint64(len(c.Body)))
				col.Label("loop:" + c.Loop)
				col.Distinct(h)
				switch {
				case o.steps < 100:
					col.Label("steps<100")
				case o.steps < 10000:
					col.Label("steps<1e4")
				default:
					col.Label("steps>=1e4")
				}
				if col.WantSample(h) && c.Prog == nil {
					col.Sample(h, c)
				}
			}
		}
		// every return path once more with contexts nobody cancels: natural HALT, breakpoint, cancel by child context
		for i := 0; i < 24; i++ {
			c := c13Case{Loop: "jr", PC: 0x0100, Instant: "hook", N: 1 + i}
			if i%3 == 0 {
				c = c13Case{Loop: "nops", PC: 0x0100, Instant: "never"}
			}
			if i%8 == 1 {
				c = c13Case{Loop: "prefixes", PC: 0x0100, Instant: "hook", N: 40 + i} // undefined op-codes all the way (the emulator warns about each)
			}
			var o c13Outcome
			if c.Instant == "never" {
				o = rig.haltOrBreak(batchCtx, i%2 == 0)
			} else {
				o = rig.runCtx(&c, batchCtx)
			}
			col.Eval(1)
			if o.msg != "" {
				violation(t, "C13", "cancel", c, "context error, whole Steps, bounded delay", o.msg)
			}
		}
		// goroutine accounting: every watcher must be gone although batchCtx is still alive
		deadline := time.Now().Add(10 * time.Second)
		for runtime.NumGoroutine() > base && time.Now().Before(deadline) {
			time.Sleep(2 * time.Millisecond)
		}
		if n := runtime.NumGoroutine(); n > base {
			violation(t, "C13", "cancel", map[string]any{"batch": batch}, "goroutine count back to baseline after a batch of Run calls",
				fmt.Sprintf("%d goroutines before a batch of %d Run calls, %d still alive 10 s after it", base, batch, n))
		}
		col.Label("batches")
	})
}

// TestC13LongRun: the delay between cancellation and return does not grow with the time the program has been running.
// Two runs of a tight loop are cancelled after 1.0 s and after 1.414 s (no schedule of ever rarer polls serves both
// within the bound); Run must be back within 300 ms - five orders of magnitude above what the tree needs. A late return
// is measured again twice before it is reported (a real defect is late every time, a stalled machine is not).
func TestC13LongRun(t *testing.T) {
	col := stats.New("C13")
	col.Sub = "longrun"
	defer finish(t, col)
	col.Rule = "longrun: JR $ and LDIR loops cancelled from another goroutine after 1.0 s and after 1.414 s of running (plain and with a break point that is never reached): Run returns the context's error " +
		"within 300 ms of the cancellation (re-measured twice before a report); non-trivial = every run"
	rig := &c13Rig{}
	const bound = 300 * time.Millisecond
	for i, after := range []time.Duration{1000 * time.Millisecond, 1414 * time.Millisecond} {
		c := c13Case{Loop: []string{"jr", "ldir"}[(env.Shard+i)%2], PC: 0x0100, Instant: "timer", N: int(after / time.Microsecond), BP: (env.Shard/2+i)%2 == 0}
		var late time.Duration
		for attempt := 0; attempt < 3; attempt++ {
			rig.load(&c)
			rig.initCPU(&c, &rig.cpu, &rig.m)
			ctx, cancel := context.WithCancel(context.Background())
			var cancelledAt time.Time
			timer := time.AfterFunc(after, func() { cancelledAt = time.Now(); cancel() })
			done := make(chan error, 1)
			go func() { done <- rig.cpu.Run(ctx) }()
			var err error
			select {
			case err = <-done:
			case <-time.After(after + 20*time.Second):
				timer.Stop()
				cancel()
				violation(t, "C13", "cancel", c, "bounded delay", fmt.Sprintf("Run did not return within 20 s of a cancellation made after %v of running", after))
			}
			returned := time.Now()
			timer.Stop()
			cancel()
			col.Eval(1)
			if err != context.Canceled {
				violation(t, "C13", "cancel", c, "context error", fmt.Sprintf("Run returned %v after a cancellation made after %v of running", err, after))
			}
			late = returned.Sub(cancelledAt)
			if late <= bound {
				break
			}
			col.Label("longrun:late-return-re-measured")
		}
		if late > bound {
			violation(t, "C13", "cancel", c, "delay independent of how long the program has been running",
				fmt.Sprintf("cancelled after %v of running, Run returned %v later (three measurements, bound %v)", after, late, bound))
		}
		col.DistinctN(1)
		col.Label("longrun:cancelled-after-" + after.String())
	}
}
