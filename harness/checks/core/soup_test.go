package core

import (
	"github.com/koron-go/z80/verifharness/ref"
	"pgregory.net/rapid"
)

// Byte-soup programs: strings assembled from implemented encodings with drawn
// operands; no well-formedness. Jumps may land anywhere.

type soupIntr struct {
	AtStep int   `json:"at_step"`
	NMI    bool  `json:"nmi"`
	Data   []int `json:"data,omitempty"`
	// During > 0: raised by a device callback at the During-th bus access of Step AtStep instead of before it
	During int `json:"during,omitempty"`
}

type soupAction struct {
	AtStep int    `json:"at_step"`
	Kind   string `json:"kind"` // poke | setpc
	Addr   uint16 `json:"addr"`
	Val    int    `json:"val"`
}

type soupCase struct {
	St      ref.State    `json:"state"`
	Code    []int        `json:"code"` // placed at St.PC
	MemSeed uint64       `json:"memseed"`
	IOSeed  uint64       `json:"ioseed"`
	Fill    int          `json:"fill"`
	IOFill  int          `json:"iofill"`
	Steps   int          `json:"steps"`
	Intr    []soupIntr   `json:"intr,omitempty"`
	Actions []soupAction `json:"actions,omitempty"`
	// NilIO (C10 only): the CPU has no I/O device
	NilIO bool `json:"nil_io,omitempty"`
	// Handlers (C10 only): bit 0 - a RETN handler is registered on the original, bit 1 - a RETI handler; a CPU rebuilt
	// from the public state gets the opposite registration (observers are not state)
	Handlers int `json:"handlers,omitempty"`
}

// modelLen asks the model how many bytes the instruction at the head of b has.
func modelLen(b []uint8) int {
	var s ref.State
	in := ref.Step(&s, &probeBus{b})
	if !in.Implemented || in.Len <= 0 {
		return 1
	}
	return in.Len
}

// interesting encodings get extra weight in the soup
var soupFavourites = func() []int {
	var f []int
	for i, e := range allEncodings {
		switch {
		case e.xycb, e.pre[0] == 0xED && len(e.pre) > 1 && e.pre[1] >= 0xA0: // DDCB/FDCB, block instructions
			f = append(f, i)
		case len(e.pre) == 1 && (e.pre[0] == 0x10 || e.pre[0] == 0x18 || e.pre[0]&0xE7 == 0x20 || e.pre[0] == 0x76): // DJNZ, JR, JR cc, HALT
			f = append(f, i)
		case len(e.pre) == 2 && (e.pre[0] == 0xDD || e.pre[0] == 0xFD):
			if i%4 == 0 {
				f = append(f, i)
			}
		}
	}
	return f
}()

func genSoup(t *rapid.T, maxInstr, maxSteps int) soupCase {
	d := drawStep(t, false)
	c := soupCase{St: d.st, MemSeed: d.memSeed, IOSeed: d.ioSeed, Fill: d.fill, IOFill: d.ioFill}
	if c.Fill < 0 && rapid.IntRange(0, 2).Draw(t, "nopfill") == 0 {
		c.Fill = 0
	}
	n := rapid.IntRange(1, maxInstr).Draw(t, "ninstr")
	g8 := gen8()
	small := rapid.SampledFrom([]uint8{0xFE, 0xFC, 0xF8, 0xF0, 0x00, 0x01, 0x02, 0x04, 0x08, 0xFD, 0xFB})
	for i := 0; i < n; i++ {
		if rapid.IntRange(0, 11).Draw(t, "junk") == 0 {
			// a prefix in front of a byte it may have no business with (DD 00, FD DD, ED FF, DD CB d 00 ...): whatever the
			// tree makes of it - the model is re-synchronised after a Step it cannot judge - must not change how the
			// instructions after it behave
			c.Code = append(c.Code, int(rapid.SampledFrom([]uint8{0xDD, 0xFD, 0xED, 0xDD, 0xFD}).Draw(t, "junkPrefix")), int(g8.Draw(t, "junkByte")))
			continue
		}
		var ei int
		if rapid.IntRange(0, 3).Draw(t, "fav") == 0 {
			ei = rapid.SampledFrom(soupFavourites).Draw(t, "enc")
		} else {
			ei = rapid.IntRange(0, len(allEncodings)-1).Draw(t, "enc")
		}
		e := &allEncodings[ei]
		ops := [3]uint8{g8.Draw(t, "o1"), g8.Draw(t, "o2"), g8.Draw(t, "o3")}
		if len(e.pre) == 1 && (e.pre[0] == 0x10 || e.pre[0] == 0x18 || e.pre[0]&0xE7 == 0x20) {
			ops[0] = small.Draw(t, "rel")
		}
		b := e.bytes(ops)
		b = b[:modelLen(b)]
		c.Code = append(c.Code, toInts(b)...)
	}
	c.Steps = rapid.IntRange(1, maxSteps).Draw(t, "steps")
	return c
}

func genSoupIntr(t *rapid.T, c *soupCase, max int) {
	n := rapid.IntRange(0, max).Draw(t, "nintr")
	for i := 0; i < n; i++ {
		it := soupIntr{AtStep: rapid.IntRange(0, c.Steps).Draw(t, "intrAt")}
		switch rapid.IntRange(0, 3).Draw(t, "intrKind") {
		case 0:
			it.NMI = true
		case 1:
			it.Data = []int{0xC7 | rapid.IntRange(0, 7).Draw(t, "rst")<<3}
		case 2:
			it.Data = []int{int(rapid.Uint8().Draw(t, "vec"))} // odd vector bytes too: outside C06's domain, the run ends there without verdict in lock-step checks
		default:
			it.Data = nil
		}
		if rapid.IntRange(0, 3).Draw(t, "byDevice") == 0 {
			it.During = rapid.IntRange(1, 4).Draw(t, "atAccess")
		}
		c.Intr = append(c.Intr, it)
	}
}
