package core

import (
	"encoding/json"
	"fmt"
	"testing"

	"github.com/koron-go/z80"
	"github.com/koron-go/z80/verifharness/bus"
	"github.com/koron-go/z80/verifharness/eng"
	"github.com/koron-go/z80/verifharness/ref"
	"github.com/koron-go/z80/verifharness/stats"
	"pgregory.net/rapid"
)

// C09 — block instructions transfer, search and count exactly as a whole
// operation. Oracle: closed-form functional specification of the completed
// operation, written here independently of the emulator and of ref.Step.

type c09Case struct {
	Op      int       `json:"op"` // second byte after ED: A0..A3 A8..AB B0..B3 B8..BB
	St      ref.State `json:"state"`
	MemSeed uint64    `json:"memseed"`
	IOSeed  uint64    `json:"ioseed"`
	Fill    int       `json:"fill"`
	IOFill  int       `json:"iofill"`
	Pokes   [][2]int  `json:"pokes"`            // extra memory bytes (addr, value), e.g. the CPIR hit
	NilIO   bool      `json:"nil_io,omitempty"` // no I/O device attached (port reads give 0, writes vanish)
	// MaskedPending: a maskable request is pending and refused (IFF1 = 0) during the whole operation; it must
	// neither change the operation nor get lost
	MaskedPending bool `json:"masked_pending,omitempty"`
	// DumbLen > 0: the emulator runs on the bundled DumbMemory of that length (reads beyond the end give 0, writes
	// there are ignored); the closed form applies the same rule
	DumbLen int `json:"dumb_len,omitempty"`
}

type c09Spec struct {
	steps  int
	post   ref.State
	fmask  uint8
	writes []uint16     // addresses written (final values in shadow)
	ports  []bus.Access // expected port log
	self   bool         // a write lands on the instruction bytes: closed form not applicable
}

func c09Name(op int) string {
	names := map[int]string{0xA0: "LDI", 0xA1: "CPI", 0xA2: "INI", 0xA3: "OUTI", 0xA8: "LDD", 0xA9: "CPD", 0xAA: "IND", 0xAB: "OUTD",
		0xB0: "LDIR", 0xB1: "CPIR", 0xB2: "INIR", 0xB3: "OTIR", 0xB8: "LDDR", 0xB9: "CPDR", 0xBA: "INDR", 0xBB: "OTDR"}
	return names[op]
}

// c09Closed computes the whole operation on the shadow memory sh (already
// holding the initial contents). Flags follow DESIGN.md 4.2.
func c09Closed(op int, s ref.State, sh0 *bus.Rec, limit int) c09Spec {
	sh := c09Mem{sh0, limit}
	var sp c09Spec
	pc0 := s.PC
	rep := op&0x10 != 0
	var dir uint16 = 1
	if op&0x08 != 0 {
		dir = 0xffff
	}
	hl := uint16(s.H)<<8 | uint16(s.L)
	de := uint16(s.D)<<8 | uint16(s.E)
	bc := uint16(s.B)<<8 | uint16(s.C)
	hitsCode := func(a uint16) bool { return a == pc0 || a == pc0+1 }
	f := s.F
	sp.fmask = 0xff
	switch op & 3 {
	case 0: // LDI LDD LDIR LDDR
		n := 1
		if rep {
			n = int(bc)
			if n == 0 {
				n = 65536
			}
		}
		var last uint8
		for i := 0; i < n; i++ {
			last = sh.Peek(hl)
			if hitsCode(de) {
				sp.self = true
			}
			sh.Poke(de, last)
			sp.writes = append(sp.writes, de)
			hl += dir
			de += dir
			bc--
		}
		sp.steps = n
		k := s.A + last
		f = s.F&(ref.FS|ref.FZ|ref.FC) | k&0x08 | (k<<4)&0x20
		if bc != 0 {
			f |= ref.FPV
		}
	case 1: // CPI CPD CPIR CPDR
		n := 0
		var last uint8
		for {
			last = sh.Peek(hl)
			hl += dir
			bc--
			n++
			if !rep || bc == 0 || last == s.A {
				break
			}
		}
		sp.steps = n
		r := s.A - last
		h := (s.A & 0x0f) < (last & 0x0f)
		f = s.F&ref.FC | ref.FN | r&ref.FS
		if r == 0 {
			f |= ref.FZ
		}
		k := r
		if h {
			f |= ref.FH
			k--
		}
		f |= k&0x08 | (k<<4)&0x20
		if bc != 0 {
			f |= ref.FPV
		}
	case 2, 3: // INI IND INIR INDR / OUTI OUTD OTIR OTDR
		n := 1
		b := s.B
		if rep {
			n = int(b)
			if n == 0 {
				n = 256
			}
		}
		var last uint8
		var kk uint16
		for i := 0; i < n; i++ {
			if op&3 == 2 {
				last = sh.InValue(s.C, i)
				sp.ports = append(sp.ports, bus.Access{K: bus.In, Addr: uint16(s.C), Val: last})
				if hitsCode(hl) {
					sp.self = true
				}
				sh.Poke(hl, last)
				sp.writes = append(sp.writes, hl)
				hl += dir
				kk = uint16(last) + uint16(uint8(s.C+uint8(dir)))
			} else {
				last = sh.Peek(hl)
				sp.ports = append(sp.ports, bus.Access{K: bus.Out, Addr: uint16(s.C), Val: last})
				hl += dir
				kk = uint16(last) + uint16(uint8(hl))
			}
			b--
		}
		sp.steps = n
		bc = uint16(b)<<8 | uint16(s.C)
		// Z exact; N must be 1 when bit 7 of the last byte is 1; C kept when silicon keeps it; rest unspecified
		sp.fmask = ref.FZ
		f = s.F &^ ref.FZ
		if b == 0 {
			f |= ref.FZ
		}
		if last&0x80 != 0 {
			sp.fmask |= ref.FN
			f |= ref.FN
		}
		if (kk > 255) == (s.F&ref.FC != 0) {
			sp.fmask |= ref.FC
		}
	}
	p := s
	p.H, p.L = uint8(hl>>8), uint8(hl)
	p.D, p.E = uint8(de>>8), uint8(de)
	p.B, p.C = uint8(bc>>8), uint8(bc)
	p.F = f
	p.PC = pc0 + 2
	sp.post = p
	return sp
}

// c09Mem applies the bounds rule of a short DumbMemory to the shadow memory (limit 0 = full 64 KiB).
type c09Mem struct {
	*bus.Rec
	limit int
}

func (m c09Mem) Peek(a uint16) uint8 {
	if m.limit > 0 && int(a) >= m.limit {
		return 0
	}
	return m.Rec.Peek(a)
}

func (m c09Mem) Poke(a uint16, v uint8) {
	if m.limit > 0 && int(a) >= m.limit {
		return
	}
	m.Rec.Poke(a, v)
}

type c09Rig struct {
	ib, sh *bus.Rec
	cpu    z80.CPU
	lock   *lockRig
	dumb   z80.DumbMemory
}

func newC09Rig() *c09Rig { return &c09Rig{ib: bus.New(), sh: bus.New(), lock: newLockRig()} }

func (r *c09Rig) setup(b *bus.Rec, c *c09Case) {
	if c.NilIO {
		c.IOFill = 0
	}
	b.Reset(c.MemSeed, c.IOSeed, c.Fill, c.IOFill)
	for _, p := range c.Pokes {
		b.Poke(uint16(p[0]), uint8(p[1]))
	}
	b.Poke(c.St.PC, 0xED)
	b.Poke(c.St.PC+1, uint8(c.Op))
}

// run returns (message, label).
func (r *c09Rig) run(c *c09Case) (string, string, int) {
	if c.MaskedPending {
		c.St.IFF1 = false
	}
	r.setup(r.sh, c)
	sp := c09Closed(c.Op, c.St, r.sh, c.DumbLen)
	if c.DumbLen > 0 && (sp.self || int(c.St.PC)+2 > c.DumbLen || c.St.PC > 0xFFFD) {
		return "", "short-memory-not-applicable:skipped", sp.steps
	}
	if sp.self && (c.NilIO || c.MaskedPending) {
		return "", "selfmod-without-io-device:skipped", sp.steps
	}
	if sp.self {
		return r.runLockstep(c), "selfmod-lockstep", sp.steps
	}
	r.setup(r.ib, c)
	r.ib.NoLog = sp.steps > 4096 // long runs: skip the access log, the memory image is still compared
	r.cpu = z80.CPU{Memory: r.ib, IO: r.ib}
	if c.NilIO {
		r.cpu.IO = nil
		sp.ports = nil
	}
	if c.DumbLen > 0 {
		if cap(r.dumb) < 65536 {
			r.dumb = make(z80.DumbMemory, 65536)
		}
		r.dumb = r.dumb[:c.DumbLen]
		for a := range r.dumb {
			r.dumb[a] = r.ib.Peek(uint16(a))
		}
		r.cpu.Memory = r.dumb
	}
	eng.ToCPU(&c.St, &r.cpu)
	var req *z80.Interrupt
	if c.MaskedPending {
		req = z80.IM1Interrupt()
		r.cpu.Interrupt = req
	}
	pc0 := c.St.PC
	bc0 := uint16(c.St.B)<<8 | uint16(c.St.C)
	rep := c.Op&0x10 != 0
	name := c09Name(c.Op)
	for j := 1; ; j++ {
		if p := eng.SafeStep(&r.cpu); p != nil {
			return fmt.Sprint(name, ": Step panicked: ", p), "", sp.steps
		}
		if r.cpu.PC != pc0 {
			if j != sp.steps {
				return fmt.Sprintf("%s: operation finished after %d Steps, want %d", name, j, sp.steps), "", sp.steps
			}
			break
		}
		if j >= sp.steps {
			return fmt.Sprintf("%s: PC still on the instruction after %d Steps (operation is %d elements)", name, j, sp.steps), "", sp.steps
		}
		// one element per Step: counters move by exactly one
		if rep {
			switch c.Op & 3 {
			case 0, 1:
				if g := r.cpu.BC.U16(); g != bc0-uint16(j) {
					return fmt.Sprintf("%s: after Step %d BC=%04x want %04x", name, j, g, bc0-uint16(j)), "", sp.steps
				}
			default:
				if g := r.cpu.BC.Hi; g != c.St.B-uint8(j) {
					return fmt.Sprintf("%s: after Step %d B=%02x want %02x", name, j, g, c.St.B-uint8(j)), "", sp.steps
				}
			}
		}
	}
	got := eng.FromCPU(&r.cpu)
	want := sp.post
	in := ref.Info{FMask: sp.fmask}
	got.R, want.R = 0, 0
	if ds := eng.StateDiff(&got, &want, nil, &in); len(ds) > 0 {
		return name + ": " + ds[0].Kind + ": " + ds[0].Msg, "", sp.steps
	}
	if r.cpu.Interrupt != req {
		return name + ": the refused request that was pending during the operation is gone", "", sp.steps
	}
	if c.DumbLen > 0 {
		for a := 0; a < c.DumbLen; a++ {
			if r.dumb[a] != r.sh.Peek(uint16(a)) {
				return fmt.Sprintf("%s on DumbMemory(len %#x): mem[%04x]=%02x want %02x", name, c.DumbLen, a, r.dumb[a], r.sh.Peek(uint16(a))), "", sp.steps
			}
		}
		return "", "closed-form-on-short-DumbMemory", sp.steps
	}
	for _, a := range sp.writes {
		if r.ib.Peek(a) != r.sh.Peek(a) {
			return fmt.Sprintf("%s: mem[%04x]=%02x want %02x", name, a, r.ib.Peek(a), r.sh.Peek(a)), "", sp.steps
		}
	}
	var ports []bus.Access
	for _, x := range r.ib.Log {
		switch x.K {
		case bus.In, bus.Out:
			ports = append(ports, x)
		case bus.Write:
			if r.ib.Peek(x.Addr) != r.sh.Peek(x.Addr) {
				return fmt.Sprintf("%s: stray write mem[%04x]=%02x want %02x", name, x.Addr, r.ib.Peek(x.Addr), r.sh.Peek(x.Addr)), "", sp.steps
			}
		}
	}
	if !r.ib.NoLog && !eng.SameSeq(ports, sp.ports) {
		return fmt.Sprintf("%s: port log %s want %s", name, eng.FmtLog(ports), eng.FmtLog(sp.ports)), "", sp.steps
	}
	if r.ib.NoLog {
		// full image compare instead of the log-driven one
		if ok, a := bus.EqualFull(r.ib, r.sh); !ok {
			return fmt.Sprintf("%s: mem[%04x]=%02x want %02x", name, a, r.ib.Peek(a), r.sh.Peek(a)), "", sp.steps
		}
	}
	return "", "closed-form", sp.steps
}

// runLockstep decides self-modifying runs against ref.Step, Step by Step.
func (r *c09Rig) runLockstep(c *c09Case) string {
	l := r.lock
	l.init(c.St, c.MemSeed, c.IOSeed, c.Fill, c.IOFill)
	for _, p := range c.Pokes {
		l.poke(uint16(p[0]), uint8(p[1]))
	}
	l.poke(c.St.PC, 0xED)
	l.poke(c.St.PC+1, uint8(c.Op))
	for j := 0; j < 2048; j++ {
		o := l.step()
		if o.skipped {
			return ""
		}
		for _, d := range o.discs {
			return fmt.Sprintf("%s (self-modifying, lock-step) Step %d: %s: %s", c09Name(c.Op), j+1, d.Kind, d.Msg)
		}
		if l.ms.PC != c.St.PC {
			break
		}
	}
	return ""
}

// single vs repeat: one Step of LDI equals the first Step of LDIR from the same state, modulo PC
// (and bits 5/3 while the repeating form has not finished).
func (r *c09Rig) singleVsRepeat(c *c09Case) string {
	if c.Op&0x10 == 0 || c.DumbLen > 0 {
		return ""
	}
	one := func(op int) (ref.State, []bus.Access, any) {
		cc := *c
		cc.Op = op
		r.setup(r.ib, &cc)
		r.cpu = z80.CPU{Memory: r.ib, IO: r.ib}
		if c.NilIO {
			r.cpu.IO = nil
		}
		eng.ToCPU(&c.St, &r.cpu)
		p := eng.SafeStep(&r.cpu)
		return eng.FromCPU(&r.cpu), append([]bus.Access(nil), r.ib.Log[2:]...), p
	}
	a, la, pa := one(c.Op)
	b, lb, pb := one(c.Op &^ 0x10)
	if pa != nil || pb != nil {
		return "Step panicked"
	}
	// the two runs differ in one memory byte, the second opcode byte; a data access to that very
	// address legitimately sees different values (same guard as in C11)
	for _, l := range [][]bus.Access{la, lb} {
		for _, x := range l {
			if (x.K == bus.Read || x.K == bus.Write) && x.Addr == c.St.PC+1 {
				return ""
			}
		}
	}
	repeating := a.PC == c.St.PC
	a.PC, b.PC = 0, 0
	if repeating && c.Op&2 == 0 {
		a.F &^= 0x28
		b.F &^= 0x28
	}
	if c.Op&2 != 0 {
		// block I/O flags other than Z are unspecified and may legitimately differ between forms
		a.F &= ref.FZ
		b.F &= ref.FZ
	}
	if a != b {
		in := ref.Info{FMask: 0xff}
		ds := eng.StateDiff(&a, &b, nil, &in)
		m := ""
		if len(ds) > 0 {
			m = ds[0].Msg
		}
		return fmt.Sprintf("%s first element (got) differs from %s (want): %s", c09Name(c.Op), c09Name(c.Op&^0x10), m)
	}
	if !eng.SameSeq(la, lb) {
		return fmt.Sprintf("%s first element accesses %s, %s accesses %s", c09Name(c.Op), eng.FmtLog(la), c09Name(c.Op&^0x10), eng.FmtLog(lb))
	}
	return ""
}

func init() {
	replayers["block"] = func(prop string, raw json.RawMessage) (string, error) {
		var c c09Case
		if err := json.Unmarshal(raw, &c); err != nil {
			return "", err
		}
		r := newC09Rig()
		if m, _, _ := r.run(&c); m != "" {
			return m, nil
		}
		return r.singleVsRepeat(&c), nil
	}
}

var c09Ops = []int{0xA0, 0xA1, 0xA2, 0xA3, 0xA8, 0xA9, 0xAA, 0xAB, 0xB0, 0xB1, 0xB2, 0xB3, 0xB8, 0xB9, 0xBA, 0xBB}

func TestC09(t *testing.T) {
	col := stats.New("C09")
	col.Sub = "block"
	defer finish(t, col)
	col.Rule = "all 16 block encodings x rapid-drawn start states: BC / B from {0,1,2,255,256,65535} or random (long counts in ~1/8 of the draws), HL/DE anywhere with overlap distance -3..+3, " +
		"wrap through 0xFFFF, source or destination on top of the instruction bytes, A and memory arranged so that CPIR/CPDR hit early, late or never, port data depending on port and read index; " +
		"each operation is run by Step until PC leaves the instruction; oracle = closed-form specification of the whole operation (memory image, pointers, counters, documented flags, " +
		"port log, exact number of Steps, one element per Step); runs whose writes land on the instruction itself are decided in lock-step against the reference model; " +
		"plus single form == first element of repeat form; non-trivial = operation of >= 2 elements; distinct by hash(op, state, memory seed)"
	rig := newC09Rig()
	focus := -1
	rapid.Check(t, func(t *rapid.T) {
		d := drawStep(t, false)
		st := d.st
		// counters
		long := rapid.IntRange(0, 7).Draw(t, "long?") == 0
		var bc uint16
		if long {
			bc = rapid.SampledFrom([]uint16{0, 65535, 256, 0x8000, 4097}).Draw(t, "BClong")
		} else {
			bc = rapid.OneOf(rapid.SampledFrom([]uint16{1, 2, 3, 255, 256, 257, 0x100, 0x200, 0x1ff}), rapid.Uint16Range(1, 600)).Draw(t, "BC")
			if rapid.IntRange(0, 5).Draw(t, "B=0?") == 0 {
				bc &= 0x00ff // B = 0: 256 elements for block I/O
			}
		}
		st.B, st.C = uint8(bc>>8), uint8(bc)
		// pointers: overlap / on the instruction / wrap
		hl := uint16(st.H)<<8 | uint16(st.L)
		switch rapid.IntRange(0, 5).Draw(t, "shape") {
		case 0: // overlapping source and destination
			de := hl + uint16(rapid.IntRange(-3, 3).Draw(t, "dist"))
			st.D, st.E = uint8(de>>8), uint8(de)
		case 1: // destination runs into the instruction
			de := st.PC - uint16(rapid.IntRange(-2, 40).Draw(t, "deBefore"))
			st.D, st.E = uint8(de>>8), uint8(de)
		case 2: // source covers the instruction
			hl = st.PC - uint16(rapid.IntRange(-2, 40).Draw(t, "hlBefore"))
			st.H, st.L = uint8(hl>>8), uint8(hl)
		case 3: // wrap through 0xFFFF
			hl = 0xFFFF - uint16(rapid.IntRange(0, 5).Draw(t, "hlWrap"))
			st.H, st.L = uint8(hl>>8), uint8(hl)
			de := uint16(rapid.IntRange(0, 5).Draw(t, "deWrap")) - 3
			st.D, st.E = uint8(de>>8), uint8(de)
		}
		// CPIR hit position
		var pokes [][2]int
		if rapid.IntRange(0, 2).Draw(t, "hit?") != 0 {
			k := rapid.IntRange(0, 300).Draw(t, "hitAt")
			pokes = append(pokes, [2]int{int(hl + uint16(k)), int(st.A)}, [2]int{int(hl - uint16(k)), int(st.A)})
		}
		for oi, op := range c09Ops {
			if focus >= 0 && focus != oi {
				continue
			}
			c := c09Case{Op: op, St: st, MemSeed: d.memSeed ^ uint64(oi)<<44, IOSeed: d.ioSeed, Fill: d.fill, IOFill: d.ioFill, Pokes: pokes}
			if d.variant&7 == 1 && op&2 != 0 {
				c.NilIO = true // block I/O on a CPU without I/O device: counters, pointers, flags and memory as ever
				col.Label("no-io-device")
			}
			if d.variant&7 == 4 {
				c.MaskedPending = true
				col.Label("masked-request-pending")
			}
			if d.variant&7 == 2 && bc != 0 && bc < 4000 {
				// a DumbMemory that ends in the middle of the source or destination block, or right behind them
				hl16, de16 := int(uint16(st.H)<<8|uint16(st.L)), int(uint16(st.D)<<8|uint16(st.E))
				cands := []int{hl16 + 1, hl16 + 2, hl16 + int(bc)/2 + 1, de16 + 1, de16 + int(bc)/2 + 1, 0x8000, hl16 + int(bc) + 1}
				c.DumbLen = cands[int(d.memSeed>>20)%len(cands)]
				if c.DumbLen > 65536 || c.DumbLen < 3 {
					c.DumbLen = 0
				}
			}
			msg, label, steps := rig.run(&c)
			col.Eval(1)
			if msg == "" {
				msg = rig.singleVsRepeat(&c)
			}
			if msg != "" {
				focus = oi
				violation(t, "C09", "block", c, "closed-form specification of the block operation", msg)
			}
			col.Label(label)
			col.Label("op:" + c09Name(op))
			if steps >= 2 {
				h := stats.Hash(uint64(op), stateHash(&st), c.MemSeed, uint64(len(pokes)))
				col.Distinct(h)
				if col.WantSample(h) {
					col.Sample(h, c)
				}
			}
			switch {
			case steps >= 65535:
				col.Label("steps>=65535")
			case steps >= 256:
				col.Label("steps>=256")
			case steps >= 2:
				col.Label("steps>=2")
			default:
				col.Label("steps=1")
			}
			if op&0x13 == 0x11 && steps < int(bc) && bc != 0 {
				col.Label("cpir-early-hit")
			}
		}
	})
}
