package core

import (
	"fmt"
	"sync/atomic"

	"github.com/koron-go/z80"
	"github.com/koron-go/z80/verifharness/bus"
	"github.com/koron-go/z80/verifharness/eng"
	"github.com/koron-go/z80/verifharness/ref"
)

// Known-finding signatures (KNOWN_FINDINGS.txt).
const sigIm0 = "im0-executes-at-pc"

// lockRig runs the emulator and the reference model side by side over many
// Steps on equal buses, comparing after every Step. Where the properties allow
// more than one outcome (EI shadow, acceptance while parked on HALT) every
// legal outcome is tried; outcomes that reproduce a recorded known finding
// exactly are recognised, counted and adopted so that the search goes on.
type lockRig struct {
	ib, mb     *bus.Rec
	rb         *bus.Rec // memory of the Run-driven twin (C04 programs)
	cpu        z80.CPU
	ms         ref.State
	retn, reti counter
	mRetN      int
	mRetI      int
	mReq       *ref.Request // pending request of the model (the emulator's is cpu.Interrupt)
	handlers   int          // bit 0: no RETN handler registered, bit 1: no RETI handler registered
	// machine variation of the emulator side: 1/32 of the runs use the bundled 64 KiB DumbMemory (then final
	// contents of the cells the model touched are compared instead of access logs)
	useDumb bool
	dumb    z80.DumbMemory
	prev    z80.CPU
	alt     z80.CPU // every other Step executes on this copy (another address than r.cpu)
	flip    bool
	// during: a device callback raises this request at the duringAt-th bus access of the next Step (a memory-mapped
	// interrupt controller); it is neither served in that Step nor lost, whatever the Step does - also when the
	// Step is itself the acknowledge of an earlier request
	during   *ref.Request
	duringAt int
	afterEI  bool // previous Step executed EI
	parked   bool // previous Step executed HALT (CPU is parked on it)
	known    map[string]bool
	// resync: where the model has no verdict on a Step (an encoding outside its table, or one the tree reports as
	// invalid) the run does not end: the model takes over the emulator's state and memory and the comparison goes on
	// with the next Step (what such a Step leaves behind inside the CPU value must not show later)
	resync bool
	// strictEI: do not allow the one-instruction EI shadow (used by nothing yet)
}

func newLockRig() *lockRig {
	return &lockRig{ib: bus.New(), mb: bus.New(), known: env.Known}
}

func (r *lockRig) init(st ref.State, memSeed, ioSeed uint64, fill, ioFill int) {
	r.ib.Reset(memSeed, ioSeed, fill, ioFill)
	r.mb.Reset(memSeed, ioSeed, fill, ioFill)
	// half of the runs start from a brand-new CPU value, the others from a struct copy of the CPU value of the
	// previous run with every exported field overwritten (a Step depends on the public state only)
	if memSeed>>7&1 == 0 {
		r.cpu = z80.CPU{}
	} else {
		r.cpu = r.prev
		r.cpu.RETNHandler, r.cpu.RETIHandler, r.cpu.Interrupt, r.cpu.BreakPoints = nil, nil, nil, nil
	}
	r.cpu.Memory, r.cpu.IO = r.ib, r.ib
	switch memSeed >> 13 & 3 { // Step does not look at break points: nil, empty or populated must make no difference
	case 1:
		r.cpu.BreakPoints = map[uint16]struct{}{}
	case 2:
		r.cpu.BreakPoints = map[uint16]struct{}{st.PC: {}, st.PC + 1: {}, st.PC + 2: {}, 0x0038: {}, 0x0066: {}}
	}
	r.useDumb = memSeed>>8&31 == 5
	if r.useDumb {
		if r.dumb == nil {
			r.dumb = make(z80.DumbMemory, 65536)
		}
		for a := 0; a < 65536; a++ {
			r.dumb[a] = r.ib.Peek(uint16(a))
		}
		r.cpu.Memory = r.dumb
	}
	r.retn.n, r.reti.n, r.mRetN, r.mRetI = 0, 0, 0, 0
	// which handlers are registered varies with the case (a RETN must not reach the RETI handler when
	// no RETN handler is registered, and so on)
	r.handlers = int(memSeed>>4) & 3
	if r.handlers&1 == 0 {
		r.cpu.RETNHandler = &r.retn
	}
	if r.handlers&2 == 0 {
		r.cpu.RETIHandler = &r.reti
	}
	eng.ToCPU(&st, &r.cpu)
	r.ms = st
	r.mReq = nil
	r.during = nil
	r.afterEI = false
	r.parked = false
}

func (r *lockRig) poke(a uint16, v uint8) {
	r.ib.Poke(a, v)
	r.mb.Poke(a, v)
	if r.useDumb {
		r.dumb[a] = v
	}
}

// raiseDuring arms a device callback for the next Step (see lockRig.during).
func (r *lockRig) raiseDuring(k int, req ref.Request) {
	q := req
	q.Data = append([]uint8(nil), req.Data...)
	r.during, r.duringAt = &q, k
}

// mkInterrupt builds the emulator-side request. The data bytes are carved out of a larger array the host owns (a
// table of vectors, a queue of requests): what follows them belongs to somebody else and must not be written.
func mkInterrupt(req *ref.Request) *z80.Interrupt {
	if req.NMI {
		return z80.NMIInterrupt()
	}
	tbl := make([]uint8, len(req.Data)+8)
	copy(tbl, req.Data)
	for i := len(req.Data); i < len(tbl); i++ {
		tbl[i] = canary
	}
	return &z80.Interrupt{Type: z80.IMType, Data: tbl[:len(req.Data)]}
}

const canary = 0xA5

// canaryIntact reports whether the bytes behind a request's data (see mkInterrupt) are untouched.
func canaryIntact(it *z80.Interrupt) bool {
	if it == nil || it.Type != z80.IMType || cap(it.Data) < len(it.Data)+8 {
		return true
	}
	for _, b := range it.Data[len(it.Data) : len(it.Data)+8] {
		if b != canary {
			return false
		}
	}
	return true
}

// raise sets the same pending request on both sides.
func (r *lockRig) raise(req ref.Request) {
	q := req
	q.Data = append([]uint8(nil), req.Data...)
	r.mReq = &q
	r.cpu.Interrupt = mkInterrupt(&q)
}

type lockStep struct {
	in       ref.Info
	pre      ref.State
	discs    []eng.Disc
	skipped  bool   // no verdict possible: the run ends here
	logged   bool   // emulator logged "invalid code"
	accepted bool   // an interrupt was accepted in this Step
	refused  bool   // a pending maskable request was refused in this Step
	variant  string // which legal outcome matched ("", "ei-shadow", "halt-released")
	known    string // signature of the known finding this Step reproduces exactly
	// a device callback raised a request during this Step (and it is pending now)
	raisedDuring bool
	// the Step could not be judged; the model was re-synchronised with the emulator (see lockRig.resync)
	resynced bool
}

// im0Domain: instruction classes a mode-0 device may supply within C06's domain (RST p, CALL nn and
// complete non-control instructions that work on registers only); control-flow oddities such as HALT, EI or a lone prefix are outside it.
var im0Domain = map[string]bool{"RST": true, "CALL": true, "NOP": true, "INC r": true, "DEC r": true, "LD r,n": true,
	"LD r,r'": true, "ALU A,r": true, "ALU A,n": true,
	// complete register-only instructions, also prefixed ones (ED 4A, DD 09, CB 00, FD 23, DD 21 nn)
	"ADD HL,rp": true, "ADC HL,rp": true, "SBC HL,rp": true, "INC rp": true, "DEC rp": true, "NEG": true, "ROT r": true, "BIT r": true,
	"EX DE,HL": true, "EXX": true, "EX AF,AF'": true, "CPL": true, "SCF": true, "CCF": true, "DAA": true, "RxA": true, "LD rp,nn": true,
	// instructions with a memory operand: under the known finding the two exact models say what they read and write
	"ALU A,(m)": true, "LD r,(m)": true, "LD (m),r": true, "LD (m),n": true, "ROT (m)": true, "ROT (xy+d)": true, "BIT (m)": true, "BIT (xy+d)": true,
	"LD A,(BC)": true, "LD A,(DE)": true, "LD (BC),A": true, "LD (DE),A": true, "LD A,(nn)": true, "LD (nn),A": true, "LD HL,(nn)": true, "LD (nn),HL": true,
	"INC r(m)": true, "DEC r(m)": true, "PUSH": true, "POP": true}

type lockCand struct {
	variant string
	known   string
	run     func(s *ref.State) (in ref.Info, consumed bool)
}

func (r *lockRig) candidates(pre *ref.State) []lockCand {
	plain := lockCand{run: func(s *ref.State) (ref.Info, bool) { return ref.Step(s, r.mb), false }}
	if r.mReq == nil {
		return []lockCand{plain}
	}
	req := *r.mReq
	willAccept := req.NMI || pre.IFF1
	if !willAccept {
		return []lockCand{plain} // refused: the program continues, the request stays
	}
	// domain of C06: data valid for the mode in force at acceptance (a complete instruction in mode 0,
	// an even vector in mode 2, IM in 0..2); anything else ends the run without verdict
	if !req.NMI {
		switch pre.IM {
		case 0:
			if len(req.Data) == 0 {
				return nil
			}
			s := *pre
			if _, in := ref.Accept(&s, &probeBus{}, req, ref.Quirks{}); !in.Implemented || in.Len > len(req.Data) || !im0Domain[in.Class] {
				return nil
			}
		case 1:
		case 2:
			if len(req.Data) == 0 || req.Data[0]&1 != 0 {
				return nil
			}
		default:
			return nil
		}
	}
	var cs []lockCand
	accept := func(q ref.Quirks, bump uint16) func(s *ref.State) (ref.Info, bool) {
		return func(s *ref.State) (ref.Info, bool) {
			s.PC += bump
			_, in := ref.Accept(s, r.mb, req, q)
			return in, true
		}
	}
	cs = append(cs, lockCand{run: accept(ref.Quirks{}, 0)})
	if !req.NMI && r.afterEI {
		// as on silicon: one more instruction runs before a request enabled by EI is taken
		cs = append(cs, lockCand{variant: "ei-shadow", run: plain.run})
	}
	if r.parked && r.mb.Peek(pre.PC) == 0x76 {
		// parked on HALT: the return address may be the HALT itself or the instruction after it
		cs = append(cs, lockCand{variant: "halt-released", run: accept(ref.Quirks{}, 1)})
	}
	if !req.NMI && pre.IM == 0 && r.known[sigIm0] {
		cs = append(cs, lockCand{known: sigIm0, run: accept(ref.Quirks{Im0ExecutesAtPC: true}, 0)})
		// the same finding without the overlay's side effects on data accesses (DESIGN.md 4.5)
		cs = append(cs, lockCand{known: sigIm0, run: accept(ref.Quirks{Im0ExecutesAtPC: true, Im0NoOverlay: true}, 0)})
	}
	return cs
}

// consumedAsInvalid: the emulator treated the bytes at PC as an encoding it does not support - it read between one and
// four instruction bytes, advanced PC by as many (and R), and did nothing else. That is what C12 asks of unsupported
// opcodes; for an *optional* encoding of the model (undocumented, not supported by the pinned tree: the RETN mirrors) it
// means "this tree does not support it" (no verdict), whether or not the tree says so in its log. For the undocumented
// encodings the pinned tree does support only the log line counts - an instruction turned into a no-op is a violation. log == nil: no access log available (bundled memory types), state only.
func consumedAsInvalid(pre, got *ref.State, log []bus.Access, haveLog bool) bool {
	n := int(got.PC - pre.PC)
	if n < 1 || n > 4 {
		return false
	}
	if haveLog {
		if len(log) != n {
			return false
		}
		for i, x := range log {
			if x.K != bus.Read || x.Addr != pre.PC+uint16(i) {
				return false
			}
		}
	}
	a, b := *pre, *got
	a.PC, b.PC, a.R, b.R = 0, 0, 0, 0
	return a == b
}

// resyncNow (inside a journalled model Step that has no verdict): forget what the model did, take over the emulator's
// state and memory. Not possible on the bundled DumbMemory (no copy of it on the model's side) or after a panic.
func (r *lockRig) resyncNow(o *lockStep, pan any, dur *ref.Request, fired bool) bool {
	if !r.resync || r.useDumb || pan != nil {
		return false
	}
	r.mb.Rollback()
	r.mb.End()
	r.ib.CopyTo(r.mb)
	r.ms = eng.FromCPU(&r.cpu)
	switch {
	case fired && r.cpu.Interrupt != nil:
		r.mReq = dur // a device callback raised a request during the Step
	case r.cpu.Interrupt == nil:
		r.mReq = nil
	}
	if (r.cpu.Interrupt != nil) != (r.mReq != nil) {
		return false // the two sides no longer agree on what is pending: end the run as before
	}
	r.afterEI, r.parked = false, false
	r.prev = r.cpu
	o.resynced = true
	o.in.Class = "(not judged)"
	return true
}

// step advances both sides by one Step.
func (r *lockRig) step() lockStep {
	var o lockStep
	o.pre = r.ms
	r.ib.Log = r.ib.Log[:0]
	r.mb.Log = r.mb.Log[:0]
	cands := r.candidates(&o.pre)
	if cands == nil {
		o.skipped = true
		return o
	}

	// emulator
	l0 := atomic.LoadInt64(&logLines)
	// every other Step runs on a struct copy living at another address, the original being scribbled over
	r.flip = !r.flip
	var pan any
	target := &r.cpu
	if r.flip {
		r.alt = r.cpu
		r.cpu.States = z80.States{}
		target = &r.alt
	}
	entryReq := r.cpu.Interrupt
	dur, fired := r.during, false
	r.during = nil
	if dur != nil && !r.useDumb {
		at, it := r.ib.Accesses()+r.duringAt, mkInterrupt(dur)
		r.ib.Hook = func(n int, _ bus.Access) {
			if n == at {
				target.Interrupt = it
				fired = true
			}
		}
	}
	pan = eng.SafeStep(target)
	r.ib.Hook = nil
	if r.flip {
		r.cpu = r.alt
		r.alt.States = z80.States{}
	}
	o.logged = atomic.LoadInt64(&logLines) != l0
	got := eng.FromCPU(&r.cpu)

	var firstDiscs []eng.Disc
	var touched []uint16
	for ci, c := range cands {
		s := o.pre
		r.mb.Begin()
		in, consumed := c.run(&s)
		if ci == 0 {
			o.in = in
			if !in.Implemented {
				if r.resyncNow(&o, pan, dur, fired) {
					return o
				}
				r.mb.End()
				o.skipped = true
				return o
			}
			if pan != nil {
				r.mb.End()
				o.discs = []eng.Disc{{Kind: eng.KPanic, Msg: fmt.Sprint("Step panicked: ", pan)}}
				return o
			}
			if !o.logged && in.Optional && !consumed && consumedAsInvalid(&o.pre, &got, r.ib.Log, !r.useDumb) {
				o.logged = true // unsupported by this tree, silently
			}
			if o.logged {
				if in.Documented && !consumed {
					r.mb.End()
					o.discs = []eng.Disc{{Kind: eng.KInvalid, Msg: "documented encoding reported as invalid code"}}
					o.skipped = true
					return o
				}
				if r.resyncNow(&o, pan, dur, fired) {
					return o
				}
				r.mb.End()
				o.skipped = true
				return o
			}
		}
		if !in.Implemented {
			r.mb.Rollback()
			continue
		}
		if ci > 0 && c.known != "" && in.Optional {
			// the known finding let an *optional* (undocumented, unsupported here) encoding run (the overlay switched off at the wrap, the program's
			// own bytes execute): whether this tree supports that encoding cannot be told from a log line on an
			// acceptance Step, so there is no verdict here
			if r.resyncNow(&o, pan, dur, fired) {
				return o
			}
			r.mb.Rollback()
			r.mb.End()
			o.skipped = true
			return o
		}
		if consumed {
			if !in.IsHalt {
				s.Halt = got.Halt // nor is the host-visible HALT indication (C06 is silent; keeping and clearing are both fine)
			}
		}
		ds := eng.StateDiff(&got, &s, &o.pre, &in)
		if r.useDumb {
			// no access log on the bundled memory: the cells this outcome touches, and those any outcome tried before
			// it touches (a write the emulator made and this outcome does not have must not go unnoticed)
			for _, x := range r.mb.Log {
				if x.K == bus.Read || x.K == bus.Write {
					touched = append(touched, x.Addr)
				}
			}
			for _, a := range touched {
				if r.dumb[a] != r.mb.Peek(a) {
					ds = append(ds, eng.Disc{Kind: eng.KMemImg, Msg: fmt.Sprintf("mem[%04x]=%02x want %02x (on DumbMemory)", a, r.dumb[a], r.mb.Peek(a))})
					break
				}
			}
		} else {
			ds = append(ds, eng.LogDiff(r.ib, r.mb)...)
		}
		wantN, wantI := r.mRetN, r.mRetI
		if r.handlers&1 == 0 {
			wantN += in.RetN
		}
		if r.handlers&2 == 0 {
			wantI += in.RetI
		}
		if r.retn.n != wantN || r.reti.n != wantI {
			ds = append(ds, eng.Disc{Kind: eng.KIntr,
				Msg: fmt.Sprintf("RETN/RETI handler calls %d/%d want %d/%d", r.retn.n, r.reti.n, wantN, wantI)})
		}
		if !canaryIntact(entryReq) {
			ds = append(ds, eng.Disc{Kind: eng.KIntr, Msg: "the Step wrote into the host's array behind the data bytes of the request (Interrupt.Data had spare capacity)"})
		}
		pendingAfter, wantReq := r.mReq != nil && !consumed, r.mReq
		if fired {
			pendingAfter, wantReq = true, dur
		}
		if (r.cpu.Interrupt != nil) != pendingAfter {
			ds = append(ds, eng.Disc{Kind: eng.KIntr,
				Msg: fmt.Sprintf("pending request after the Step: emulator %v, want %v", r.cpu.Interrupt != nil, pendingAfter)})
			if fired {
				ds[len(ds)-1].Msg += " (a device callback raised a request during this Step)"
			}
		} else if pendingAfter && !sameRequest(r.cpu.Interrupt, wantReq) {
			ds = append(ds, eng.Disc{Kind: eng.KIntr, Msg: "pending request was altered"})
		}
		if len(ds) == 0 {
			// adopt this outcome (including the emulator's choice on unspecified bits)
			r.mb.End()
			s.F, s.R, s.IFF1 = got.F, got.R, got.IFF1
			r.ms = s
			r.mRetN, r.mRetI = wantN, wantI
			if consumed {
				r.mReq = nil
				o.accepted = true
			} else if r.mReq != nil {
				o.refused = !(c.variant == "ei-shadow")
			}
			if fired {
				r.mReq = dur
				o.raisedDuring = true
			}
			o.in = in
			o.variant, o.known = c.variant, c.known
			r.afterEI = in.IsEI && !consumed
			r.parked = in.IsHalt && !consumed
			r.prev = r.cpu
			return o
		}
		if ci == 0 {
			firstDiscs = ds
		}
		r.mb.Rollback()
	}
	r.mb.End()
	o.discs = firstDiscs
	return o
}

func sameRequest(a *z80.Interrupt, b *ref.Request) bool {
	if a == nil || b == nil {
		return false
	}
	if (a.Type == z80.NMIType) != b.NMI {
		return false
	}
	if len(a.Data) != len(b.Data) {
		return false
	}
	for i := range a.Data {
		if a.Data[i] != b.Data[i] {
			return false
		}
	}
	return true
}
