package core

import (
	"encoding/json"
	"fmt"
	"os"
	"path/filepath"
	"testing"

	"github.com/koron-go/z80/verifharness/ref"
	"github.com/koron-go/z80/verifharness/stats"
	"pgregory.net/rapid"
)

// Long histories for C01: the two instruction exerciser images shipped with the repository are used as
// *programs* (what they compute does not matter here): tens of thousands of Steps of real code - loops,
// calls, a CRC routine, a test instruction that the program rewrites before every execution - on one CPU
// value, in lock-step with the model and compared after every Step.

type exerCase struct {
	Image string    `json:"image"` // zexdoc.cim | zexall.cim
	First int       `json:"first"` // the pointer table is rotated so that this group runs first
	Steps int       `json:"steps"`
	St    ref.State `json:"state"`
	Seed  uint64    `json:"memseed"`
}

var exerImages = map[string][]byte{}

func exerImage(name string) ([]byte, error) {
	if b, ok := exerImages[name]; ok {
		return b, nil
	}
	repo := os.Getenv("VERIF_REPO")
	if repo == "" {
		repo = "/repo"
	}
	b, err := os.ReadFile(filepath.Join(repo, "cmd", "zexdoc", name))
	if err != nil {
		return nil, err
	}
	exerImages[name] = b
	return b, nil
}

// exerTable finds the zero-terminated pointer table of the image: JP start; start: LD HL,(6); LD SP,HL;
// LD DE,msg; LD C,9; CALL bdos; LD HL,tests.
func exerTable(img []byte) (table, n int, ok bool) {
	if len(img) < 16 || img[0] != 0xC3 {
		return
	}
	start := int(img[1]) | int(img[2])<<8 - 0x100
	if start < 0 || start+15 > len(img) || img[start] != 0x2A || img[start+3] != 0xF9 || img[start+12] != 0x21 {
		return
	}
	table = int(img[start+13]) | int(img[start+14])<<8 - 0x100
	for n = 0; ; n++ {
		if table < 0 || table+2*n+1 >= len(img) || n > 200 {
			return 0, 0, false
		}
		if img[table+2*n] == 0 && img[table+2*n+1] == 0 {
			break
		}
	}
	return table, n, n > 0
}

func exerRun(rig *lockRig, c *exerCase, kinds map[string]bool) (msg string, steps int, classes map[string]int, err error) {
	img, err := exerImage(c.Image)
	if err != nil {
		return "", 0, nil, err
	}
	table, n, ok := exerTable(img)
	st := c.St
	st.PC, st.Halt = 0x0100, false
	rig.resync = true
	rig.init(st, c.Seed, c.Seed^0x5a5a, 0, -1)
	for i, b := range img {
		rig.poke(0x0100+uint16(i), b)
	}
	if ok {
		// rotate the table
		for i := 0; i < n; i++ {
			j := (i + c.First) % n
			rig.poke(0x0100+uint16(table+2*i), img[table+2*j])
			rig.poke(0x0100+uint16(table+2*i+1), img[table+2*j+1])
		}
	}
	rig.poke(0x0000, 0x76) // warm boot: stop
	rig.poke(0x0005, 0xC9) // BDOS: return at once
	rig.poke(0x0006, 0x00) // top of memory for LD HL,(6); LD SP,HL
	rig.poke(0x0007, 0xF0)
	classes = map[string]int{}
	for s := 0; s < c.Steps; s++ {
		o := rig.step()
		if o.skipped {
			return "", s, classes, nil
		}
		for _, d := range o.discs {
			if kinds[d.Kind] {
				return fmt.Sprintf("Step %d (%s at PC=%04x): %s: %s", s+1, o.in.Class, o.pre.PC, d.Kind, d.Msg), s, classes, nil
			}
		}
		if len(o.discs) > 0 {
			return "", s, classes, nil
		}
		classes[o.in.Class]++
		if o.in.IsHalt {
			return "", s + 1, classes, nil
		}
	}
	return "", c.Steps, classes, nil
}

func exerciserTest(t *testing.T, prop, what string) {
	col := stats.New(prop)
	col.Sub = "exerciser"
	defer finish(t, col)
	col.Rule = "exerciser: the zexdoc / zexall images of the repository run as programs (pointer table rotated to a drawn group, BDOS stubbed) for 50 000..300 000 Steps on one CPU value " +
		"in lock-step with the reference model, " + what + " compared after every Step (long histories, self-modifying code, deep call/loop nesting); non-trivial = every run; distinct by hash(image, group, state)"
	rig := newLockRig()
	rapid.Check(t, func(t *rapid.T) {
		d := drawStep(t, false)
		c := exerCase{
			Image: rapid.SampledFrom([]string{"zexdoc.cim", "zexall.cim"}).Draw(t, "image"),
			First: rapid.IntRange(0, 66).Draw(t, "group"),
			Steps: rapid.IntRange(50000, 300000).Draw(t, "steps"),
			St:    d.st, Seed: d.memSeed,
		}
		msg, steps, classes, err := exerRun(rig, &c, stepKinds[prop])
		if err != nil {
			t.Fatalf("HARNESS: %v", err)
		}
		col.Eval(1)
		if msg != "" {
			violation(t, prop, "exerciser", c, "reference model, every Step", msg)
		}
		col.LabelN("exerciser-steps", int64(steps))
		col.Label("exerciser-run")
		if steps < c.Steps {
			col.Label("exerciser-run-ended-early")
		}
		for k, n := range classes {
			col.LabelN("exerciser-class:"+k, int64(n))
		}
		h := stats.Hash(stateHash(&c.St), uint64(c.First), uint64(len(c.Image)), uint64(c.Image[3]))
		col.Distinct(h)
		if col.WantSample(h) {
			col.Sample(h, c)
		}
	})
}

func TestC01Exerciser(t *testing.T) {
	exerciserTest(t, "C01", "registers, flags, memory image and port output")
}
func TestC05Exerciser(t *testing.T) {
	exerciserTest(t, "C05", "the memory and port access log of the Step")
}
func TestC14Exerciser(t *testing.T) { exerciserTest(t, "C14", "the refresh register") }

func init() {
	replayers["exerciser"] = func(prop string, raw json.RawMessage) (string, error) {
		var c exerCase
		if err := json.Unmarshal(raw, &c); err != nil {
			return "", err
		}
		kinds := stepKinds[prop]
		if kinds == nil {
			kinds = stepKinds["C01"]
		}
		m, _, _, err := exerRun(newLockRig(), &c, kinds)
		return m, err
	}
}
