package core

import (
	"github.com/koron-go/z80"
	"github.com/koron-go/z80/verifharness/stats"
)

// progMachine is the flat 64 KiB memory + port device programs run on.
// In(port) returns a byte that depends on the port and on the number of port
// reads so far; Out is logged. Hook (optional) is called after every access.
type progMachine struct {
	m      [65536]uint8
	ioSeed uint64
	nIn    int
	outs   []uint16
	nAcc   int
	hook   func(n int)
}

func (p *progMachine) Get(a uint16) uint8 {
	v := p.m[a]
	p.nAcc++
	if p.hook != nil {
		p.hook(p.nAcc)
	}
	return v
}

func (p *progMachine) Set(a uint16, v uint8) {
	p.m[a] = v
	p.nAcc++
	if p.hook != nil {
		p.hook(p.nAcc)
	}
}

func (p *progMachine) In(port uint8) uint8 {
	v := uint8(stats.Hash(p.ioSeed, uint64(port), uint64(p.nIn)))
	p.nIn++
	p.nAcc++
	if p.hook != nil {
		p.hook(p.nAcc)
	}
	return v
}

func (p *progMachine) Out(port, v uint8) {
	p.outs = append(p.outs, uint16(port)<<8|uint16(v))
	p.nAcc++
	if p.hook != nil {
		p.hook(p.nAcc)
	}
}

// buildImage fills base with hashed bytes and lays the program chunks on top.
func (p *program) buildImage(base *[65536]uint8) {
	for i := 0; i < 65536; i += 8 {
		h := stats.Hash(p.Seed, uint64(i))
		for j := 0; j < 8; j++ {
			base[i+j] = uint8(h >> (8 * uint(j)))
		}
	}
	for _, c := range p.Bytes {
		for i, b := range c.Code {
			base[c.At+uint16(i)] = uint8(b)
		}
	}
	base[p.L.Cnt] = 0
}

func (p *program) initCPU(cpu *z80.CPU, m *progMachine) {
	*cpu = z80.CPU{Memory: m, IO: m}
	h := func(i int) uint16 { return uint16(stats.Hash(p.Seed, 0x5151, uint64(i))) }
	cpu.AF.SetU16(h(0))
	cpu.BC.SetU16(h(1))
	cpu.DE.SetU16(h(2))
	cpu.HL.SetU16(h(3))
	cpu.Alternate.AF.SetU16(h(4))
	cpu.Alternate.BC.SetU16(h(5))
	cpu.Alternate.DE.SetU16(h(6))
	cpu.Alternate.HL.SetU16(h(7))
	cpu.IX, cpu.IY = h(8), h(9)
	cpu.SP, cpu.PC = p.L.Stack, p.L.Org
	cpu.IR.Hi, cpu.IR.Lo = p.L.IPage, uint8(h(10))
	cpu.IFF1, cpu.IFF2 = p.IFF, p.IFF
}

func (m *progMachine) reset(base *[65536]uint8, ioSeed uint64) {
	m.m = *base
	m.ioSeed, m.nIn, m.nAcc, m.hook = ioSeed, 0, 0, nil
	m.outs = m.outs[:0]
}
