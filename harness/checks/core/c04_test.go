package core

import (
	"context"
	"encoding/hex"
	"encoding/json"
	"fmt"
	"testing"

	"github.com/koron-go/z80"
	"github.com/koron-go/z80/verifharness/bus"
	"github.com/koron-go/z80/verifharness/eng"
	"github.com/koron-go/z80/verifharness/ref"
	"github.com/koron-go/z80/verifharness/stats"
	"pgregory.net/rapid"
)

// C04 — jumps, calls, returns and the stack follow conditions and addresses
// exactly. The oracle is written here directly from the manual's condition
// table and the push/pop rule; it does not use package ref's decoder.

// c04Cond is the manual's table: NZ Z NC C PO PE P M.
func c04Cond(cc int, f uint8) bool {
	bit := [8]uint8{0x40, 0x40, 0x01, 0x01, 0x04, 0x04, 0x80, 0x80}[cc]
	want := cc&1 == 1
	return (f&bit != 0) == want
}

type c04Write struct {
	Addr uint16
	Val  uint8
}

type c04Effect struct {
	post   ref.State
	writes []c04Write // in any order, each exactly once
	reads  []uint16   // data reads beyond the instruction bytes, each exactly once
	n      int        // instruction length
	taken  int        // 1 taken, 2 untaken, 0 unconditional
	kind   string
}

// c04Expect computes the defined effect of the control-transfer / stack
// instruction in code, executed at pre.PC with memory as given by peek.
func c04Expect(pre ref.State, code []uint8, peek func(uint16) uint8) (e c04Effect, ok bool) {
	s := pre
	op := code[0]
	pfx := uint8(0)
	i := 1
	if op == 0xDD || op == 0xFD {
		pfx = op
		op = code[1]
		i = 2
	}
	nn := func() uint16 { return uint16(code[i]) | uint16(code[i+1])<<8 }
	rel := func() uint16 { return uint16(int16(int8(code[i]))) }
	push := func(v uint16) {
		e.writes = append(e.writes, c04Write{s.SP - 1, uint8(v >> 8)}, c04Write{s.SP - 2, uint8(v)})
		s.SP -= 2
	}
	pop := func() uint16 {
		e.reads = append(e.reads, s.SP, s.SP+1)
		v := uint16(peek(s.SP)) | uint16(peek(s.SP+1))<<8
		s.SP += 2
		return v
	}
	hl := func() uint16 {
		switch pfx {
		case 0xDD:
			return s.IX
		case 0xFD:
			return s.IY
		}
		return uint16(s.H)<<8 | uint16(s.L)
	}
	cc := int(op>>3) & 7
	ok = true
	switch {
	case pfx == 0 && op&0xC7 == 0xC2: // JP cc,nn
		e.kind, e.n = "JP cc", 3
		if c04Cond(cc, s.F) {
			s.PC, e.taken = nn(), 1
		} else {
			s.PC, e.taken = s.PC+3, 2
		}
	case pfx == 0 && op&0xC7 == 0xC4: // CALL cc,nn
		e.kind, e.n = "CALL cc", 3
		if c04Cond(cc, s.F) {
			push(s.PC + 3)
			s.PC, e.taken = nn(), 1
		} else {
			s.PC, e.taken = s.PC+3, 2
		}
	case pfx == 0 && op&0xC7 == 0xC0: // RET cc
		e.kind, e.n = "RET cc", 1
		if c04Cond(cc, s.F) {
			s.PC, e.taken = pop(), 1
		} else {
			s.PC, e.taken = s.PC+1, 2
		}
	case pfx == 0 && (op == 0x20 || op == 0x28 || op == 0x30 || op == 0x38): // JR cc,e
		e.kind, e.n = "JR cc", 2
		if c04Cond(cc-4, s.F) {
			s.PC, e.taken = s.PC+2+rel(), 1
		} else {
			s.PC, e.taken = s.PC+2, 2
		}
	case pfx == 0 && op == 0x10: // DJNZ
		e.kind, e.n = "DJNZ", 2
		s.B--
		if s.B != 0 {
			s.PC, e.taken = s.PC+2+rel(), 1
		} else {
			s.PC, e.taken = s.PC+2, 2
		}
	case pfx == 0 && op == 0xC3:
		e.kind, e.n = "JP", 3
		s.PC = nn()
	case pfx == 0 && op == 0x18:
		e.kind, e.n = "JR", 2
		s.PC = s.PC + 2 + rel()
	case pfx == 0 && op == 0xCD:
		e.kind, e.n = "CALL", 3
		push(s.PC + 3)
		s.PC = nn()
	case pfx == 0 && op == 0xC9:
		e.kind, e.n = "RET", 1
		s.PC = pop()
	case pfx == 0 && op&0xC7 == 0xC7:
		e.kind, e.n = "RST", 1
		push(s.PC + 1)
		s.PC = uint16(op & 0x38)
	case op == 0xE9:
		e.kind, e.n = "JP (HL)", i
		s.PC = hl()
	case op&0xCF == 0xC5 && (pfx == 0 || op == 0xE5): // PUSH
		e.kind, e.n = "PUSH", i
		var v uint16
		switch op {
		case 0xC5:
			v = uint16(s.B)<<8 | uint16(s.C)
		case 0xD5:
			v = uint16(s.D)<<8 | uint16(s.E)
		case 0xE5:
			v = hl()
		case 0xF5:
			v = uint16(s.A)<<8 | uint16(s.F)
		}
		push(v)
		s.PC += uint16(i)
	case op&0xCF == 0xC1 && (pfx == 0 || op == 0xE1): // POP
		e.kind, e.n = "POP", i
		v := pop()
		switch op {
		case 0xC1:
			s.B, s.C = uint8(v>>8), uint8(v)
		case 0xD1:
			s.D, s.E = uint8(v>>8), uint8(v)
		case 0xE1:
			switch pfx {
			case 0xDD:
				s.IX = v
			case 0xFD:
				s.IY = v
			default:
				s.H, s.L = uint8(v>>8), uint8(v)
			}
		case 0xF1:
			s.A, s.F = uint8(v>>8), uint8(v)
		}
		s.PC += uint16(i)
	default:
		ok = false
	}
	e.post = s
	return
}

type c04Case struct {
	Bytes   string    `json:"bytes"`
	St      ref.State `json:"state"`
	MemSeed uint64    `json:"memseed"`
	Fill    int       `json:"fill"`
	Dumb    bool      `json:"dumb,omitempty"` // the emulator runs on the bundled 64 KiB DumbMemory instead of the recording bus
}

type c04Rig struct {
	b    *bus.Rec
	cpu  z80.CPU
	dumb z80.DumbMemory
}

// run executes the case; "" = as defined.
func (r *c04Rig) run(c *c04Case, code []uint8) (msg string, eff c04Effect) {
	r.b.Reset(c.MemSeed, 0, c.Fill, -1)
	for i, x := range code {
		r.b.Poke(c.St.PC+uint16(i), x)
	}
	eff, ok := c04Expect(c.St, code, r.b.Peek)
	if !ok {
		return "HARNESS: not a C04 instruction", eff
	}
	r.cpu = z80.CPU{Memory: r.b, IO: r.b}
	if c.Dumb {
		if r.dumb == nil {
			r.dumb = make(z80.DumbMemory, 65536)
		}
		for i := -2; i < 8; i++ {
			r.dumb[c.St.PC+uint16(i)] = r.b.Peek(c.St.PC + uint16(i))
			r.dumb[c.St.SP+uint16(i)] = r.b.Peek(c.St.SP + uint16(i))
		}
		r.cpu.Memory = r.dumb
	}
	eng.ToCPU(&c.St, &r.cpu)
	if p := eng.SafeStep(&r.cpu); p != nil {
		return fmt.Sprint("Step panicked: ", p), eff
	}
	got := eng.FromCPU(&r.cpu)
	want := eff.post
	got.R, want.R = 0, 0
	if got != want {
		g, w := got, want
		_ = g
		in := ref.Info{FMask: 0xff}
		ds := eng.StateDiff(&got, &w, nil, &in)
		m := "state differs"
		if len(ds) > 0 {
			m = ds[0].Msg
		}
		return eff.kind + ": " + m, eff
	}
	if c.Dumb {
		// no access log on the bundled type: the defined writes must have arrived
		for _, w := range eff.writes {
			if r.dumb[w.Addr] != w.Val {
				return fmt.Sprintf("%s on DumbMemory: mem[%04x]=%02x want %02x", eff.kind, w.Addr, r.dumb[w.Addr], w.Val), eff
			}
		}
		return "", eff
	}
	// accesses: instruction bytes once each, then exactly the defined data reads and writes
	var rd []uint16
	var wr []c04Write
	fetched := map[uint16]int{}
	for _, x := range r.b.Log {
		switch x.K {
		case bus.Read:
			off := x.Addr - c.St.PC
			if int(off) < eff.n && fetched[x.Addr] == 0 {
				fetched[x.Addr]++
				continue
			}
			rd = append(rd, x.Addr)
		case bus.Write:
			wr = append(wr, c04Write{x.Addr, x.Val})
		default:
			return eff.kind + ": port access", eff
		}
	}
	if len(fetched) != eff.n {
		return fmt.Sprintf("%s: fetched %d of %d instruction bytes", eff.kind, len(fetched), eff.n), eff
	}
	if !sameAddrs(rd, eff.reads) {
		return fmt.Sprintf("%s: data reads %04x want %04x", eff.kind, rd, eff.reads), eff
	}
	if !sameWrites(wr, eff.writes) {
		return fmt.Sprintf("%s: writes %v want %v", eff.kind, wr, eff.writes), eff
	}
	return "", eff
}

func sameAddrs(a, b []uint16) bool {
	if len(a) != len(b) {
		return false
	}
	cnt := map[uint16]int{}
	for _, x := range a {
		cnt[x]++
	}
	for _, x := range b {
		cnt[x]--
	}
	for _, v := range cnt {
		if v != 0 {
			return false
		}
	}
	return true
}

func sameWrites(a, b []c04Write) bool {
	if len(a) != len(b) {
		return false
	}
	cnt := map[c04Write]int{}
	for _, x := range a {
		cnt[x]++
	}
	for _, x := range b {
		cnt[x]--
	}
	for _, v := range cnt {
		if v != 0 {
			return false
		}
	}
	return true
}

// c04Opcodes: the conditional forms, enumerated with all 256 F (B for DJNZ),
// and the unconditional forms.
var c04CondOps = func() (o [][]uint8) {
	for y := 0; y < 8; y++ {
		o = append(o, []uint8{uint8(0xC2 | y<<3)}, []uint8{uint8(0xC4 | y<<3)}, []uint8{uint8(0xC0 | y<<3)})
	}
	for _, x := range []uint8{0x20, 0x28, 0x30, 0x38} {
		o = append(o, []uint8{x})
	}
	return
}()

var c04UncondOps = func() (o [][]uint8) {
	for _, x := range []uint8{0xC3, 0x18, 0xCD, 0xC9, 0xE9, 0xC5, 0xD5, 0xE5, 0xF5, 0xC1, 0xD1, 0xE1, 0xF1} {
		o = append(o, []uint8{x})
	}
	for p := 0; p < 8; p++ {
		o = append(o, []uint8{uint8(0xC7 | p<<3)})
	}
	for _, pf := range []uint8{0xDD, 0xFD} {
		o = append(o, []uint8{pf, 0xE9}, []uint8{pf, 0xE5}, []uint8{pf, 0xE1})
	}
	return
}()

func init() {
	replayers["ctl"] = func(prop string, raw json.RawMessage) (string, error) {
		var c c04Case
		if err := json.Unmarshal(raw, &c); err != nil {
			return "", err
		}
		code, err := hex.DecodeString(c.Bytes)
		if err != nil {
			return "", err
		}
		r := &c04Rig{b: bus.New()}
		m, _ := r.run(&c, code)
		return m, nil
	}
	replayers["roundtrip"] = func(prop string, raw json.RawMessage) (string, error) {
		var c c04RT
		if err := json.Unmarshal(raw, &c); err != nil {
			return "", err
		}
		r := &c04Rig{b: bus.New()}
		m, _ := r.roundTrip(&c)
		return m, nil
	}
}

func TestC04(t *testing.T) {
	col := stats.New("C04")
	col.Sub = "ctl"
	defer finish(t, col)
	col.Rule = "per rapid-drawn (registers, PC, SP, operand bytes, stack/memory contents; 1/3 aliased so that the stack overlaps the instruction or PC/SP sit at 0x0000/0xFFFF): " +
		"all 256 F x {8 JP cc, 8 CALL cc, 8 RET cc, 4 JR cc}, all 256 B x DJNZ, JP/JR/CALL/RET/8 RST/JP (HL),(IX),(IY)/6 PUSH/6 POP; relative offsets swept over all 256 values; " +
		"oracle = manual's condition table + push/pop rule written in c04_test.go (post-state, exact stack reads and writes, no access when untaken, F untouched); " +
		"plus model-free round trips CALL nn;RET and PUSH qq;POP qq; non-trivial = every case (taken and untaken both enumerated); distinct by hash(opcode, F/B, state)"
	rig := &c04Rig{b: bus.New()}
	focus := ""
	var focusF = -1
	rapid.Check(t, func(t *rapid.T) {
		d := drawStep(t, false)
		one := func(code []uint8, st ref.State, tag uint64) {
			c := c04Case{St: st, MemSeed: d.memSeed, Fill: d.fill, Dumb: d.variant&7 == 2}
			full := append(append([]uint8{}, code...), d.ops[0], d.ops[1], d.ops[2])
			msg, eff := rig.run(&c, full)
			col.Eval(1)
			if msg != "" {
				c.Bytes = hex.EncodeToString(full)
				focus = hex.EncodeToString(code)
				violation(t, "C04", "ctl", c, "condition table / stack rule", msg)
			}
			switch eff.taken {
			case 1:
				col.Label(eff.kind + ":taken")
			case 2:
				col.Label(eff.kind + ":untaken")
			default:
				col.Label(eff.kind)
			}
			h := stats.Hash(tag, stateHash(&st), uint64(full[len(code)])|uint64(full[len(code)+1])<<8, d.memSeed)
			col.Distinct(h)
			if col.WantSample(h) {
				c.Bytes = hex.EncodeToString(full)
				col.Sample(h, c)
			}
		}
		for oi, code := range c04CondOps {
			if focus != "" && focus != hex.EncodeToString(code) {
				continue
			}
			for f := 0; f < 256; f++ {
				if focusF >= 0 && f != focusF {
					continue
				}
				st := d.st
				st.F = uint8(f)
				one(code, st, uint64(oi)<<8|uint64(f))
			}
		}
		if focus == "" || focus == "10" {
			for b := 0; b < 256; b++ {
				st := d.st
				st.B = uint8(b)
				one([]uint8{0x10}, st, 0x10000|uint64(b))
			}
		}
		for oi, code := range c04UncondOps {
			if focus != "" && focus != hex.EncodeToString(code) {
				continue
			}
			one(code, d.st, 0x20000|uint64(oi))
		}
		// relative jumps: all 256 offsets
		if focus == "" || focus == "18" || focus == "10" || focus == "38" {
			save := d.ops
			for e := 0; e < 256; e++ {
				d.ops[0] = uint8(e)
				one([]uint8{0x18}, d.st, 0x30000|uint64(e))
				st := d.st
				st.B = 2
				one([]uint8{0x10}, st, 0x40000|uint64(e))
				st = d.st
				st.F |= 0x01
				one([]uint8{0x38}, st, 0x50000|uint64(e))
			}
			d.ops = save
		}
		if d.aliased {
			col.Label("aliased")
		}
		if d.variant&7 == 2 {
			col.Label("machine:DumbMemory")
		}
		if d.st.SP < 2 || d.st.SP == 0xFFFF {
			col.Label("sp-wraps")
		}
		// model-free round trips
		if focus == "" || focus == "rt" {
			for k := 0; k < 7; k++ {
				rt := c04RT{Kind: k, St: d.st, MemSeed: d.memSeed, Fill: d.fill, NN: uint16(d.ops[1]) | uint16(d.ops[2])<<8}
				msg, skipped := rig.roundTrip(&rt)
				col.Eval(1)
				if skipped {
					col.Label("roundtrip:skipped-stack-overlaps-code")
					continue
				}
				col.Label("roundtrip")
				if msg != "" {
					focus = "rt"
					violation(t, "C04", "roundtrip", rt, "identity", msg)
				}
				col.Distinct(stats.Hash(0x60000|uint64(k), stateHash(&d.st), uint64(rt.NN), d.memSeed))
			}
		}
	})
}

// c04RT is a round trip: kind 0 = CALL nn ; (at nn) RET, kinds 1..6 = PUSH qq ; POP qq
// for BC, DE, HL, AF, IX, IY.
type c04RT struct {
	Kind    int       `json:"kind"`
	St      ref.State `json:"state"`
	MemSeed uint64    `json:"memseed"`
	Fill    int       `json:"fill"`
	NN      uint16    `json:"nn"`
}

func (r *c04Rig) roundTrip(c *c04RT) (msg string, skipped bool) {
	r.b.Reset(c.MemSeed, 0, c.Fill, -1)
	pc, sp := c.St.PC, c.St.SP
	var first, second []uint8
	secondAt := pc
	switch c.Kind {
	case 0:
		first = []uint8{0xCD, uint8(c.NN), uint8(c.NN >> 8)}
		second = []uint8{0xC9}
		secondAt = c.NN
	default:
		pp := [][2][]uint8{{{0xC5}, {0xC1}}, {{0xD5}, {0xD1}}, {{0xE5}, {0xE1}}, {{0xF5}, {0xF1}}, {{0xDD, 0xE5}, {0xDD, 0xE1}}, {{0xFD, 0xE5}, {0xFD, 0xE1}}}[c.Kind-1]
		first, second = pp[0], pp[1]
		secondAt = pc + uint16(len(first))
	}
	// the two pushed bytes must not land on the second instruction, and the two instructions must not overlap
	for i := range second {
		a := secondAt + uint16(i)
		if a == sp-1 || a == sp-2 {
			return "", true
		}
		if off := a - pc; int(off) < len(first) {
			return "", true
		}
	}
	for i, x := range first {
		r.b.Poke(pc+uint16(i), x)
	}
	for i, x := range second {
		r.b.Poke(secondAt+uint16(i), x)
	}
	r.cpu = z80.CPU{Memory: r.b, IO: r.b}
	eng.ToCPU(&c.St, &r.cpu)
	if p := eng.SafeStep(&r.cpu); p != nil {
		return fmt.Sprint("Step panicked: ", p), false
	}
	if c.Kind == 0 && r.cpu.PC != c.NN {
		return fmt.Sprintf("CALL %04x: PC=%04x", c.NN, r.cpu.PC), false
	}
	if r.cpu.SP != sp-2 {
		return fmt.Sprintf("after first instruction SP=%04x want %04x", r.cpu.SP, sp-2), false
	}
	if p := eng.SafeStep(&r.cpu); p != nil {
		return fmt.Sprint("Step panicked: ", p), false
	}
	got := eng.FromCPU(&r.cpu)
	want := c.St
	want.PC = pc + uint16(len(first))
	if c.Kind != 0 {
		want.PC += uint16(len(second))
	}
	got.R, want.R = 0, 0
	if got != want {
		in := ref.Info{FMask: 0xff}
		ds := eng.StateDiff(&got, &want, nil, &in)
		m := "state differs"
		if len(ds) > 0 {
			m = ds[0].Msg
		}
		return fmt.Sprintf("round trip kind %d is not the identity: %s", c.Kind, m), false
	}
	return "", false
}

// TestC04Programs: subroutine calls whose body patches its own return slot by every route the
// instruction set offers (EX (SP),HL/IX/IY, POP/INC/PUSH, direct stores, INC/DEC SP, nested calls),
// in lock-step with the reference model: a RET must take the address that is in memory now.
func TestC04Programs(t *testing.T) {
	col := stats.New("C04")
	col.Sub = "programs"
	defer finish(t, col)
	col.Rule = "programs: CALL sub / CALL cc / RST with a generated body of stack-patching operations (EX (SP),rr, POP rr;INC rr;PUSH rr, LD (slot),HL, INC/DEC SP pairs, nested CALL, PUSH/POP) ending in RET / RET cc, " +
		"run in lock-step with the reference model (registers, SP, PC, flags, memory image after every Step); non-trivial = the return slot was rewritten before the RET; distinct by hash(code, state)"
	rig := newLockRig()
	rapid.Check(t, func(t *rapid.T) {
		d := drawStep(t, false)
		st := d.st
		st.PC = rapid.SampledFrom([]uint16{0x0100, 0x8000, 0xFFF0, 0x4000}).Draw(t, "org")
		st.SP = rapid.SampledFrom([]uint16{0x9000, 0x0002, 0x0001, 0x0000, 0xFFFF, 0x7000}).Draw(t, "sp")
		sub := st.PC + 0x40
		var main []int
		patched := false
		// caller
		switch rapid.IntRange(0, 2).Draw(t, "callKind") {
		case 0:
			main = []int{0xCD, int(sub & 0xff), int(sub >> 8)}
		case 1:
			cc := rapid.IntRange(0, 7).Draw(t, "cc")
			main = []int{0xC4 | cc<<3, int(sub & 0xff), int(sub >> 8)}
		default:
			main = []int{0xCD, int(sub & 0xff), int(sub >> 8)}
		}
		for i := 0; i < 6; i++ {
			main = append(main, 0x00)
		}
		main = append(main, 0x76)
		selfmod := false
		if rapid.IntRange(0, 3).Draw(t, "patchedJump") == 0 {
			// the patched-jump idiom: a JP/CALL nn (or JP cc / JR) whose operand the program rewrites before
			// executing the very same instruction again
			//   org:  JP A            A:  [POP DE]; LD HL,B; LD (org+1),HL; JP org      B: [POP DE]; CALL sub; HALT
			selfmod = true
			a, b := st.PC+0x10, st.PC+0x20
			kind := rapid.IntRange(0, 3).Draw(t, "pjKind")
			main = make([]int, 0x2a)
			pop := 0x00
			switch kind {
			case 0:
				main[0], main[1], main[2] = 0xC3, int(a&0xff), int(a>>8)
			case 1:
				main[0], main[1], main[2] = 0xCD, int(a&0xff), int(a>>8)
				pop = 0xD1
			case 2: // JP cc with a condition that holds in the drawn flags (LD/JP do not change them)
				cc := rapid.IntRange(0, 7).Draw(t, "cc")
				if !c04Cond(cc, st.F) {
					cc ^= 1
				}
				main[0], main[1], main[2] = 0xC2|cc<<3, int(a&0xff), int(a>>8)
			default: // JR e: the displacement byte is what gets patched (L is stored at org+1, H lands on the NOP at org+2)
				main[0], main[1], main[2] = 0x18, 0x10-2, 0x00
			}
			patch := []int{pop, 0x21, int(b & 0xff), int(b >> 8), 0x22, int((st.PC + 1) & 0xff), int((st.PC + 1) >> 8), 0xC3, int(st.PC & 0xff), int(st.PC >> 8)}
			if kind == 3 {
				patch[2], patch[3] = 0x20-2, 0x00
			}
			copy(main[0x10:], patch)
			copy(main[0x20:], []int{pop, 0xCD, int(sub & 0xff), int(sub >> 8), 0x00, 0x00, 0x00, 0x00, 0x00, 0x76})
		}
		// body
		var body []int
		n := rapid.IntRange(0, 5).Draw(t, "nbody")
		for i := 0; i < n; i++ {
			switch rapid.IntRange(0, 9).Draw(t, "bodyOp") {
			case 0:
				body = append(body, 0xE3) // EX (SP),HL
				patched = true
			case 1:
				body = append(body, rapid.SampledFrom([]int{0xDD, 0xFD}).Draw(t, "xy"), 0xE3)
				patched = true
			case 2: // POP rr ; INC rr ; PUSH rr
				p := rapid.IntRange(0, 2).Draw(t, "rr")
				body = append(body, 0xC1|p<<4, 0x03|p<<4, 0xC5|p<<4)
				patched = true
			case 3: // POP IX ; INC IX ; PUSH IX
				x := rapid.SampledFrom([]int{0xDD, 0xFD}).Draw(t, "xy")
				body = append(body, x, 0xE1, x, 0x23, x, 0xE5)
				patched = true
			case 4: // LD HL,nn ; LD (slot),HL   (slot = SP after the CALL)
				slot := st.SP - 2
				ret := st.PC + 3 + uint16(rapid.IntRange(0, 5).Draw(t, "skip"))
				body = append(body, 0x21, int(ret&0xff), int(ret>>8), 0x22, int(slot&0xff), int(slot>>8))
				patched = true
			case 5: // INC SP ; DEC SP
				body = append(body, 0x33, 0x3B)
			case 6: // PUSH AF ; POP AF
				body = append(body, 0xF5, 0xF1)
			case 7: // nested CALL to a bare RET
				inner := sub + 0x30
				body = append(body, 0xCD, int(inner&0xff), int(inner>>8))
			case 8: // LD A,n ; OR A  (changes flags for a following RET cc)
				body = append(body, 0x3E, int(rapid.Uint8().Draw(t, "n")), 0xB7)
			default:
				body = append(body, 0x00)
			}
		}
		if rapid.Bool().Draw(t, "retcc") {
			body = append(body, 0xC0|rapid.IntRange(0, 7).Draw(t, "cc2")<<3)
		}
		body = append(body, 0xC9)
		c := soupCase{St: st, Code: main, MemSeed: d.memSeed, IOSeed: d.ioSeed, Fill: 0, IOFill: d.ioFill, Steps: 72}
		for i, b := range body {
			c.Actions = append(c.Actions, soupAction{AtStep: 0, Kind: "poke", Addr: sub + uint16(i), Val: b})
		}
		c.Actions = append(c.Actions, soupAction{AtStep: 0, Kind: "poke", Addr: sub + 0x30, Val: 0xC9})
		msg, steps, trunc, classes := soupLockstep(rig, &c, map[string]bool{eng.KState: true, eng.KFlags: true, eng.KMemImg: true})
		col.Eval(1)
		if msg != "" {
			violation(t, "C04", "soup", c, "reference model, every Step", msg)
		}
		if trunc {
			col.Label("truncated")
		}
		if selfmod && !trunc {
			col.Label("patched-jump-idiom")
		}
		if !trunc && rig.parked {
			// the same program once more from the start, driven by Run this time: it must end where the
			// Step-driven run (which agreed with the model at every Step) ended
			if m := rig.runTwin(&c, steps); m != "" {
				violation(t, "C04", "c04run", c, "reference model via lock-step, then the same program under Run", m)
			}
			col.Label("run-twin-compared")
		}
		rets := 0
		for _, cl := range classes {
			if cl == "RET" || cl == "RET cc" {
				rets++
			}
		}
		col.LabelN("steps", int64(steps))
		if rets > 0 {
			col.Label("ret-executed")
		}
		if patched && rets > 0 {
			col.Label("return-slot-rewritten-before-ret")
			h := stateHash(&st)
			for _, b := range body {
				h = stats.Hash(h, uint64(b))
			}
			col.Distinct(h)
			if col.WantSample(h) {
				col.Sample(h, c)
			}
		}
	})
}

// runTwin runs the program of a case that the lock-step run has just brought to a HALT once more from its initial
// state, with CPU.Run on a fresh CPU and memory, and compares the end with the end of the lock-step run. A Run that
// makes more accesses than any run of that many Steps could is cancelled from inside the memory (no clock involved).
func (r *lockRig) runTwin(c *soupCase, steps int) string {
	for _, a := range c.Actions {
		if a.AtStep != 0 || a.Kind != "poke" {
			return ""
		}
	}
	if len(c.Intr) > 0 || r.mReq != nil || r.cpu.Interrupt != nil {
		return ""
	}
	if r.rb == nil {
		r.rb = bus.New()
	}
	r.rb.Reset(c.MemSeed, c.IOSeed, c.Fill, c.IOFill)
	r.rb.NoLog = true
	for i, b := range c.Code {
		r.rb.Poke(c.St.PC+uint16(i), uint8(b))
	}
	for _, a := range c.Actions {
		r.rb.Poke(a.Addr, uint8(a.Val))
	}
	var rc z80.CPU
	rc.Memory, rc.IO = r.rb, r.rb
	st := c.St
	eng.ToCPU(&st, &rc)
	ctx, cancel := context.WithCancel(context.Background())
	defer cancel()
	budget := steps*64 + 256
	over := false
	r.rb.Hook = func(n int, _ bus.Access) {
		if n > budget && !over {
			over = true
			cancel()
		}
	}
	err := rc.Run(ctx)
	r.rb.Hook = nil
	if over {
		return fmt.Sprintf("under Run the program does not reach the HALT that %d Steps reach at PC=%04x (cancelled after %d accesses at PC=%04x)", steps, r.cpu.PC, budget, rc.PC)
	}
	if err != nil {
		return fmt.Sprintf("Run returned %v, %d Steps end halted at PC=%04x", err, steps, r.cpu.PC)
	}
	rc.IR.Lo = r.cpu.IR.Lo // the lock-step run went on stepping the HALT; refresh counting is C14's and C08's business
	if rc.States != r.cpu.States {
		g, w := eng.FromCPU(&rc), eng.FromCPU(&r.cpu)
		return fmt.Sprintf("Run ends elsewhere than %d Steps: %s", steps, fmtStateDiff(&g, &w))
	}
	if ok, a := bus.EqualDirty(r.rb, r.mb); !ok {
		return fmt.Sprintf("after Run mem[%04x]=%02x, after %d Steps %02x", a, r.rb.Peek(a), steps, r.mb.Peek(a))
	}
	return ""
}

func init() {
	replayers["c04run"] = func(prop string, raw json.RawMessage) (string, error) {
		var c soupCase
		if err := json.Unmarshal(raw, &c); err != nil {
			return "", err
		}
		rig := newLockRig()
		m, steps, trunc, _ := soupLockstep(rig, &c, map[string]bool{eng.KState: true, eng.KFlags: true, eng.KMemImg: true})
		if m != "" || trunc || !rig.parked {
			return m, nil
		}
		return rig.runTwin(&c, steps), nil
	}
}
