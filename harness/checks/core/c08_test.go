package core

import (
	"context"
	"encoding/json"
	"errors"
	"fmt"
	"testing"
	"time"

	"github.com/koron-go/z80"
	"github.com/koron-go/z80/verifharness/stats"
	"pgregory.net/rapid"
)

// C08 — Run is exactly repeated Step and stops only at a breakpoint or an
// executed HALT. Oracle: a twin CPU on an equal machine driven by Step with
// the stop rule written from the property text.

type c08Script struct {
	At   int    `json:"at"`   // access count at which the device raises the request
	Kind string `json:"kind"` // nmi | int | armbp (a debug port: the callback adds Addr to the break points) | newbps (it installs a new set {Addr})
	Addr uint16 `json:"addr,omitempty"`
}

type c08Case struct {
	Prog      *program    `json:"program,omitempty"`
	Soup      []int       `json:"soup,omitempty"` // alternative to Prog: raw bytes at SoupAt over a HALT-filled memory
	SoupAt    uint16      `json:"soup_at"`
	SoupSeed  uint64      `json:"soup_seed"`
	IM        int         `json:"im"`
	NilBP     bool        `json:"nil_bp"`
	BPs       []uint16    `json:"bps"`
	Runs      int         `json:"runs"`
	StaleHalt bool        `json:"stale_halt"`
	Script    []c08Script `json:"script"`
	Arg       int         `json:"arg"`              // IM2 vector
	NilIO     bool        `json:"nil_io,omitempty"` // no I/O device: requests can still be raised by memory callbacks
	// BPChange: before Run call i+1 (i >= 1) the breakpoint set is replaced (or, if InPlace, mutated in
	// the same map) by BPSets[i-1]; same size as the old set in half of the cases
	BPSets  [][]uint16 `json:"bp_sets,omitempty"`
	InPlace bool       `json:"in_place,omitempty"`
	// HostLeavesHalt: the Step-driven twin is a host that never writes the HALT field (Step does not look at it: C10);
	// it tells an executed HALT from PC staying on a 76 byte. (The other twin clears the field where Run does.)
	HostLeavesHalt bool `json:"host_leaves_halt,omitempty"`
}

const c08TwinCap = 30000

type c08Rig struct {
	base   [65536]uint8
	ma, mb progMachine
	ca, cb z80.CPU
	// bps: the break points as the Step-driven twin sees them (edited by the host between calls and by device
	// callbacks during a call, exactly like ca.BreakPoints)
	bps map[uint16]bool
	// leaveHalt: see c08Case.HostLeavesHalt
	leaveHalt bool
}

func (r *c08Rig) setup(c *c08Case) {
	if c.Prog != nil {
		c.Prog.buildImage(&r.base)
	} else {
		for i := range r.base {
			r.base[i] = 0x76
		}
		for i, b := range c.Soup {
			r.base[c.SoupAt+uint16(i)] = uint8(b)
		}
	}
	for _, pair := range []struct {
		m   *progMachine
		cpu *z80.CPU
	}{{&r.ma, &r.ca}, {&r.mb, &r.cb}} {
		m, cpu := pair.m, pair.cpu
		if c.Prog != nil {
			m.reset(&r.base, c.Prog.Seed^0x20)
			c.Prog.initCPU(cpu, m)
		} else {
			m.reset(&r.base, c.SoupSeed)
			*cpu = z80.CPU{Memory: m, IO: m}
			h := func(i int) uint16 { return uint16(stats.Hash(c.SoupSeed, uint64(i))) }
			cpu.AF.SetU16(h(0))
			cpu.BC.SetU16(h(1))
			cpu.DE.SetU16(h(2))
			cpu.HL.SetU16(h(3))
			cpu.IX, cpu.IY, cpu.SP = h(4), h(5), h(6)
			cpu.PC = c.SoupAt
			cpu.IFF1, cpu.IFF2 = h(7)&1 != 0, h(7)&1 != 0
		}
		cpu.IM = c.IM
		cpu.HALT = c.StaleHalt
		if c.NilIO {
			cpu.IO = nil
		}
		if !c.NilBP {
			cpu.BreakPoints = map[uint16]struct{}{}
			for _, b := range c.BPs {
				cpu.BreakPoints[b] = struct{}{}
			}
		}
		script := c.Script
		im, arg := c.IM, c.Arg
		twin := cpu == &r.cb
		m.hook = func(n int) {
			for _, ev := range script {
				if ev.At == n {
					switch {
					case ev.Kind == "armbp" || ev.Kind == "newbps":
						if twin {
							if ev.Kind == "newbps" || r.bps == nil {
								r.bps = map[uint16]bool{}
							}
							r.bps[ev.Addr] = true
						} else {
							if ev.Kind == "newbps" || cpu.BreakPoints == nil {
								cpu.BreakPoints = map[uint16]struct{}{}
							}
							cpu.BreakPoints[ev.Addr] = struct{}{}
						}
					case ev.Kind == "nmi":
						cpu.Interrupt = z80.NMIInterrupt()
					default:
						switch im {
						case 0:
							cpu.Interrupt = z80.IM0Interrupt(0xFF)
						case 1:
							cpu.Interrupt = z80.IM1Interrupt()
						default:
							cpu.Interrupt = z80.IM2Interrupt(uint8(arg) &^ 1)
						}
					}
				}
			}
		}
	}
}

// twinRun applies the property's stop rule with Step.
func twinRun(cpu *z80.CPU, bps map[uint16]bool) (err error, steps int, ok bool) {
	cpu.HALT = false
	for steps = 1; steps <= c08TwinCap; steps++ {
		cpu.Step()
		if bps[cpu.PC] {
			return z80.ErrBreakPoint, steps, true
		}
		if cpu.HALT {
			return nil, steps, true
		}
	}
	return nil, steps, false
}

// twinRunLive is twinRun on the rig's twin with the break points read afresh after every Step (a device callback
// may have edited them during that Step).
func (r *c08Rig) twinRunLive() (err error, steps int, ok bool) {
	if r.leaveHalt {
		for steps = 1; steps <= c08TwinCap; steps++ {
			pc := r.cb.PC
			r.cb.Step()
			if r.bps[r.cb.PC] {
				return z80.ErrBreakPoint, steps, true
			}
			if r.cb.PC == pc && r.mb.m[pc] == 0x76 && r.cb.HALT {
				return nil, steps, true
			}
		}
		return nil, steps, false
	}
	r.cb.HALT = false
	for steps = 1; steps <= c08TwinCap; steps++ {
		r.cb.Step()
		if r.bps[r.cb.PC] {
			return z80.ErrBreakPoint, steps, true
		}
		if r.cb.HALT {
			return nil, steps, true
		}
	}
	return nil, steps, false
}

type c08Outcome struct {
	msg       string
	discarded bool
	bpHits    int
	haltRets  int
	intr      bool
	steps     int
	bpEdits   int
}

func (r *c08Rig) run(c *c08Case) c08Outcome {
	var o c08Outcome
	r.setup(c)
	r.leaveHalt = c.HostLeavesHalt
	if r.leaveHalt {
		r.cb.HALT = false // (the stale indication of the case is Run's to discard; this host has never set the field)
	}
	r.bps = map[uint16]bool{}
	if !c.NilBP {
		for _, b := range c.BPs {
			r.bps[b] = true
		}
	}
	for call := 0; call < c.Runs; call++ {
		if call >= 1 && call-1 < len(c.BPSets) && !c.NilBP {
			// the host edits its breakpoints between calls
			r.bps = map[uint16]bool{}
			if c.InPlace {
				for k := range r.ca.BreakPoints {
					delete(r.ca.BreakPoints, k)
				}
			} else {
				r.ca.BreakPoints = map[uint16]struct{}{}
			}
			for _, b := range c.BPSets[call-1] {
				r.bps[b] = true
				r.ca.BreakPoints[b] = struct{}{}
			}
			o.bpEdits++
		}
		werr, steps, ok := r.twinRunLive()
		if !ok {
			o.discarded = true
			return o
		}
		o.steps += steps
		ctx, cancel := context.WithTimeout(context.Background(), 20*time.Second)
		gerr := r.ca.Run(ctx)
		cancel()
		if errors.Is(gerr, context.DeadlineExceeded) {
			o.msg = fmt.Sprintf("Run call %d did not return within 20 s; repeated Step stops after %d Steps with %v", call+1, steps, werr)
			return o
		}
		if gerr != werr {
			o.msg = fmt.Sprintf("Run call %d returned %v, repeated Step gives %v (after %d Steps, PC=%04x)", call+1, gerr, werr, steps, r.cb.PC)
			return o
		}
		if r.ca.States != r.cb.States {
			g, w := stFromStates(r.ca.States), stFromStates(r.cb.States)
			o.msg = fmt.Sprintf("Run call %d: state differs from %d repeated Steps: %s", call+1, steps, fmtStateDiff(&g, &w))
			if g.R != w.R {
				o.msg += fmt.Sprintf(" R=%02x want %02x", g.R, w.R)
			}
			return o
		}
		if r.ca.HALT != r.cb.HALT && !(r.leaveHalt && gerr != nil) { // (a host that never clears the field still has it set from an earlier HALT)
			o.msg = fmt.Sprintf("Run call %d: HALT=%v want %v", call+1, r.ca.HALT, r.cb.HALT)
			return o
		}
		if r.ma.nAcc != r.mb.nAcc {
			o.msg = fmt.Sprintf("Run call %d made %d memory/port accesses, %d repeated Steps make %d", call+1, r.ma.nAcc, steps, r.mb.nAcc)
			return o
		}
		if (r.ca.Interrupt == nil) != (r.cb.Interrupt == nil) {
			o.msg = fmt.Sprintf("Run call %d: pending request %v want %v", call+1, r.ca.Interrupt != nil, r.cb.Interrupt != nil)
			return o
		}
		if r.ma.m != r.mb.m {
			o.msg = fmt.Sprintf("Run call %d: memory differs from repeated Step", call+1)
			return o
		}
		if len(r.ma.outs) != len(r.mb.outs) {
			o.msg = fmt.Sprintf("Run call %d: port output differs from repeated Step", call+1)
			return o
		}
		// explicit assertions from the property text
		if gerr == nil {
			o.haltRets++
			if !r.ca.HALT || r.ma.m[r.ca.PC] != 0x76 {
				o.msg = fmt.Sprintf("Run call %d returned nil with HALT=%v and PC=%04x addressing %02x", call+1, r.ca.HALT, r.ca.PC, r.ma.m[r.ca.PC])
				return o
			}
		} else {
			o.bpHits++
			if !r.bps[r.ca.PC] {
				o.msg = fmt.Sprintf("Run call %d returned ErrBreakPoint at PC=%04x which is not a breakpoint", call+1, r.ca.PC)
				return o
			}
		}
	}
	o.intr = len(c.Script) > 0
	return o
}

func init() {
	replayers["run"] = func(prop string, raw json.RawMessage) (string, error) {
		var c c08Case
		if err := json.Unmarshal(raw, &c); err != nil {
			return "", err
		}
		r := &c08Rig{}
		return r.run(&c).msg, nil
	}
}

// trace collects the PCs and cumulative access counts of the program run by Step alone.
func (r *c08Rig) trace(c *c08Case) (pcs []uint16, acc []int) {
	saved := c.Runs
	r.setup(c)
	c.Runs = saved
	r.cb.BreakPoints = nil
	for i := 0; i < 4000; i++ {
		pc := r.cb.PC
		pcs = append(pcs, pc)
		r.cb.Step()
		acc = append(acc, r.mb.nAcc)
		if r.cb.PC == pc && r.mb.m[pc] == 0x76 && r.cb.Interrupt == nil {
			break
		}
	}
	return
}

// genC08Case draws a program, a device script and breakpoint sets (placed on addresses the program really visits).
func genC08Case(t *rapid.T, rig *c08Rig, col *stats.Collector) (c c08Case, pcs []uint16, ok bool) {
	if rapid.IntRange(0, 3).Draw(t, "soup?") == 0 {
		n := rapid.IntRange(1, 24).Draw(t, "soupLen")
		for i := 0; i < n; i++ {
			c.Soup = append(c.Soup, int(rapid.Uint8().Draw(t, "b")))
		}
		c.SoupAt = rapid.SampledFrom([]uint16{0x0100, 0xFFF0, 0xFFFA, 0x0000, 0x8000}).Draw(t, "soupAt")
		c.SoupSeed = rapid.Uint64().Draw(t, "soupSeed")
	} else {
		c.Prog = genProgram(t, 10)
	}
	c.IM = rapid.IntRange(0, 2).Draw(t, "im")
	c.Arg = int(rapid.Uint8().Draw(t, "vector"))
	c.StaleHalt = rapid.Bool().Draw(t, "staleHalt")
	c.Runs = rapid.IntRange(1, 6).Draw(t, "runs")
	// first: where does the program go?
	c.NilBP = true
	var acc []int
	if safely(func() { pcs, acc = rig.trace(&c) }) != nil {
		col.Label("discarded:step-panics")
		return
	}
	// device script
	if c.Prog != nil && rapid.IntRange(0, 2).Draw(t, "script?") == 0 && len(acc) > 0 {
		ns := rapid.IntRange(1, 2).Draw(t, "nscript")
		for i := 0; i < ns; i++ {
			at := rapid.IntRange(1, acc[len(acc)-1]+3).Draw(t, "scriptAt")
			kind := rapid.SampledFrom([]string{"nmi", "int"}).Draw(t, "scriptKind")
			c.Script = append(c.Script, c08Script{At: at, Kind: kind})
		}
		if safely(func() { pcs, acc = rig.trace(&c) }) != nil {
			col.Label("discarded:step-panics")
			return c, nil, false
		}
	}
	// breakpoints
	switch rapid.IntRange(0, 6).Draw(t, "bpShape") {
	case 0:
		c.NilBP = true
	case 1:
		c.NilBP = false
	case 2:
		c.NilBP, c.BPs = false, []uint16{pcs[0]}
	case 3:
		c.NilBP, c.BPs = false, []uint16{pcs[len(pcs)-1]}
	case 4: // inside an instruction: one past an executed PC
		i := rapid.IntRange(0, len(pcs)-1).Draw(t, "bpIdx")
		c.NilBP, c.BPs = false, []uint16{pcs[i] + 1}
	default:
		c.NilBP = false
		nb := rapid.IntRange(1, 4).Draw(t, "nbp")
		for i := 0; i < nb; i++ {
			c.BPs = append(c.BPs, pcs[rapid.IntRange(0, len(pcs)-1).Draw(t, "bpIdx")])
		}
	}
	if len(acc) > 1 && rapid.IntRange(0, 3).Draw(t, "armBP") == 0 {
		// a debug port: in the middle of the run a device callback arms a break point (on an address the program
		// visits later), by adding to the set - which may be nil or empty until then - or by installing a new one
		j := rapid.IntRange(0, len(pcs)-1).Draw(t, "armIdx")
		at := 1
		if j > 0 {
			at = rapid.IntRange(1, max(1, acc[j-1])).Draw(t, "armAt")
		}
		c.Script = append(c.Script, c08Script{At: at, Kind: rapid.SampledFrom([]string{"armbp", "armbp", "newbps"}).Draw(t, "armKind"), Addr: pcs[j]})
	}
	if c.Prog != nil && rapid.IntRange(0, 3).Draw(t, "nilIO") == 0 {
		c.NilIO = true
	}
	if c.Prog != nil && rapid.IntRange(0, 2).Draw(t, "hostLeavesHalt") == 0 {
		// (not with a maskable request in mode 0: a HALT the device supplies is not a 76 byte in memory)
		c.HostLeavesHalt = true
		for _, ev := range c.Script {
			if ev.Kind == "int" && c.IM == 0 {
				c.HostLeavesHalt = false
			}
		}
	}
	if !c.NilBP && c.Runs >= 2 && rapid.IntRange(0, 1).Draw(t, "editBPs") == 0 {
		c.InPlace = rapid.Bool().Draw(t, "inPlace")
		for i := 1; i < c.Runs; i++ {
			n := len(c.BPs)
			if rapid.Bool().Draw(t, "otherSize") {
				n = rapid.IntRange(0, 4).Draw(t, "nbp2")
			}
			var set []uint16
			for j := 0; j < n; j++ {
				set = append(set, pcs[rapid.IntRange(0, len(pcs)-1).Draw(t, "bpIdx2")])
			}
			c.BPSets = append(c.BPSets, set)
		}
	}
	return c, pcs, true
}

func TestC08(t *testing.T) {
	col := stats.New("C08")
	col.Sub = "run"
	defer finish(t, col)
	col.Rule = "generated terminating programs (statement grammar; or short random byte strings over a HALT-filled memory) x breakpoint sets (nil, empty, start PC, HALT address, inside a multi-byte instruction, " +
		"random subsets of executed PCs incl. addresses reached through 0xFFFF->0x0000) x 1..6 consecutive Run calls x stale HALT indication x device scripts raising NMI / maskable requests, or arming a break point (added to the set, or a new set installed), at a chosen " +
		"memory or port access; oracle = twin CPU driven by Step with the stop rule of the property (breakpoint first, then HALT, at least one Step): returned error, registers incl. R, HALT, memory, " +
		"number of accesses, pending request and port output must be equal after every call; non-trivial = >= 2 Run calls with a breakpoint hit, or a device-raised interrupt; distinct by hash(case)"
	rig := &c08Rig{}
	rapid.Check(t, func(t *rapid.T) {
		c, pcs, ok := genC08Case(t, rig, col)
		if !ok {
			return
		}
		var o c08Outcome
		if pv := safely(func() { o = rig.run(&c) }); pv != nil {
			// Step panics on this input (C12's business); Run == Step cannot be decided
			col.Label("discarded:step-panics")
			return
		}
		col.Eval(1)
		if o.discarded {
			col.Label("discarded:twin-does-not-stop")
			return
		}
		if o.msg != "" {
			violation(t, "C08", "run", c, "repeated Step with the property's stop rule", o.msg)
		}
		col.LabelN("run-calls", int64(c.Runs))
		col.LabelN("returns:breakpoint", int64(o.bpHits))
		col.LabelN("returns:halt", int64(o.haltRets))
		if c.Prog == nil {
			col.Label("soup")
		}
		if c.StaleHalt {
			col.Label("stale-halt")
		}
		if o.intr {
			col.Label("device-raised-interrupt")
		}
		for _, ev := range c.Script {
			if ev.Kind == "armbp" || ev.Kind == "newbps" {
				col.Label("break-point-armed-by-a-device-callback")
				break
			}
		}
		if c.NilIO {
			col.Label("no-io-device")
		}
		if o.bpEdits > 0 {
			col.Label("breakpoints-edited-between-runs")
		}
		if (c.Runs >= 2 && o.bpHits > 0) || o.intr {
			h := stats.Hash(uint64(c.Runs), uint64(len(c.BPs)), uint64(o.steps), uint64(len(pcs)), c.SoupSeed)
			if c.Prog != nil {
				h = stats.Hash(h, c.Prog.Seed, uint64(c.Prog.L.CodeEnd))
			}
			col.Distinct(h)
			if col.WantSample(h) && (c.Prog == nil || len(c.Prog.Bytes[0].Code) < 60) {
				col.Sample(h, c)
			}
		}
	})
}
