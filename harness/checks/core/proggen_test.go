package core

import (
	"pgregory.net/rapid"
)

// Program generator for C07 / C08 / C13 (DESIGN.md appendix C): register-
// transparent, terminating programs assembled from a statement grammar.

type progLayout struct {
	Kind    int    `json:"kind"`  // 0: A plain, 1: B code straddles 0xFFFF->0x0000, 2: C stack top 0x0001
	Org     uint16 `json:"org"`   // entry point
	Main    uint16 `json:"main"`  // start of the main body (== Org unless layout B)
	Data    uint16 `json:"data"`  // 256-byte data window
	Stack   uint16 `json:"stack"` // initial SP
	HMask   uint16 `json:"hmask"` // maskable handler
	HNMI    uint16 `json:"hnmi"`  // 0x0066
	IPage   uint8  `json:"ipage"` // IM2 vector table page
	Cnt     uint16 `json:"cnt"`   // handler invocation counter byte
	Halt    uint16 `json:"halt"`  // address of the final HALT (three more HALTs follow)
	NoRST0  bool   `json:"norst0"`
	CodeEnd uint16 `json:"codeend"`
}

type program struct {
	L     progLayout       `json:"layout"`
	Image map[uint16]uint8 `json:"-"`
	Bytes []progChunk      `json:"chunks"`
	IFF   bool             `json:"iff"` // initial IFF1 == IFF2
	Seed  uint64           `json:"seed"`
	Tags  map[string]bool  `json:"-"`
}

type progChunk struct {
	At   uint16 `json:"at"`
	Code []int  `json:"code"`
}

type asm struct {
	org uint16
	buf []uint8
}

func (a *asm) pc() uint16      { return a.org + uint16(len(a.buf)) }
func (a *asm) emit(b ...uint8) { a.buf = append(a.buf, b...) }
func (a *asm) emit16(v uint16) { a.buf = append(a.buf, uint8(v), uint8(v>>8)) }
func (a *asm) patch16(at int, v uint16) {
	a.buf[at], a.buf[at+1] = uint8(v), uint8(v>>8)
}

type progGen struct {
	t    *rapid.T
	a    *asm
	L    *progLayout
	subs []uint16 // addresses of generated subroutines (filled in a second pass: calls go through a table)
	nsub int
	tags map[string]bool
	// calls to subroutines are emitted as CALL to a fixed slot; slots are laid out after the main body
	callSites []int // offsets of CALL operands to patch: (offset, sub index) pairs
	callSub   []int
}

func (g *progGen) r8(label string) int { // B C D E H L A (no (HL))
	return rapid.SampledFrom([]int{0, 1, 2, 3, 4, 5, 7}).Draw(g.t, label)
}

func (g *progGen) dataAddr(span int) uint16 {
	return g.L.Data + uint16(rapid.IntRange(0, 255-span).Draw(g.t, "dataoff"))
}

// simple emits one statement without control flow or stack traffic.
func (g *progGen) simple() {
	a, t := g.a, g.t
	switch rapid.IntRange(0, 17).Draw(t, "simple") {
	case 0: // LD r,n
		a.emit(uint8(0x06|g.r8("r")<<3), rapid.Uint8().Draw(t, "n"))
	case 1: // LD rr,nn
		a.emit(uint8(0x01 | rapid.IntRange(0, 2).Draw(t, "rr")<<4))
		a.emit16(rapid.Uint16().Draw(t, "nn"))
	case 2: // ALU A,r
		a.emit(uint8(0x80 | rapid.IntRange(0, 7).Draw(t, "alu")<<3 | g.r8("r")))
	case 3: // ALU A,n
		a.emit(uint8(0xC6|rapid.IntRange(0, 7).Draw(t, "alu")<<3), rapid.Uint8().Draw(t, "n"))
	case 4: // INC r / DEC r
		a.emit(uint8(0x04 | g.r8("r")<<3 | rapid.IntRange(0, 1).Draw(t, "dec")))
	case 5: // INC rr / DEC rr (BC, DE, HL)
		a.emit(uint8(0x03 | rapid.IntRange(0, 2).Draw(t, "rr")<<4 | rapid.IntRange(0, 1).Draw(t, "dec")<<3))
	case 6: // LD (data+k),A / LD A,(data+k)
		a.emit(uint8(0x32 | rapid.IntRange(0, 1).Draw(t, "load")<<3))
		a.emit16(g.dataAddr(0))
	case 7: // LD HL,data+k ; LD (HL),r | LD r,(HL) | ALU A,(HL) | INC (HL)
		a.emit(0x21)
		a.emit16(g.dataAddr(0))
		switch rapid.IntRange(0, 3).Draw(t, "hlop") {
		case 0:
			a.emit(uint8(0x70 | g.r8("r")))
		case 1:
			a.emit(uint8(0x46 | g.r8("r")<<3))
		case 2:
			a.emit(uint8(0x86 | rapid.IntRange(0, 7).Draw(t, "alu")<<3))
		default:
			a.emit(uint8(0x34 | rapid.IntRange(0, 1).Draw(t, "dec")))
		}
	case 8: // LD IX|IY,data+128 ; OP (IX+d)
		pf := rapid.SampledFrom([]uint8{0xDD, 0xFD}).Draw(t, "xy")
		a.emit(pf, 0x21)
		a.emit16(g.L.Data + 128)
		d := uint8(int8(rapid.IntRange(-64, 63).Draw(t, "d")))
		switch rapid.IntRange(0, 4).Draw(t, "xyop") {
		case 0:
			a.emit(pf, uint8(0x70|g.r8("r")), d)
		case 1:
			a.emit(pf, uint8(0x46|g.r8("r")<<3), d)
		case 2:
			a.emit(pf, uint8(0x86|rapid.IntRange(0, 7).Draw(t, "alu")<<3), d)
		case 3:
			a.emit(pf, uint8(0x34|rapid.IntRange(0, 1).Draw(t, "dec")), d)
		default:
			a.emit(pf, 0xCB, d, uint8(0x06|rapid.IntRange(0, 31).Draw(t, "cbop")<<3))
		}
	case 9: // exchanges
		a.emit(rapid.SampledFrom([]uint8{0x08, 0xD9, 0xEB}).Draw(t, "ex"))
	case 10: // accumulator ops
		a.emit(rapid.SampledFrom([]uint8{0x07, 0x0F, 0x17, 0x1F, 0x27, 0x2F, 0x37, 0x3F}).Draw(t, "accop"))
	case 11: // NEG / LD A,I
		a.emit(0xED, rapid.SampledFrom([]uint8{0x44, 0x57}).Draw(t, "edop"))
		g.tags["ld-a-i-or-neg"] = true
	case 12: // CB rr
		a.emit(0xCB, uint8(rapid.IntRange(0, 255).Draw(t, "cb")&^0x07|g.r8("r")))
	case 13: // 16-bit arithmetic
		switch rapid.IntRange(0, 2).Draw(t, "a16") {
		case 0:
			a.emit(uint8(0x09 | rapid.IntRange(0, 2).Draw(t, "rr")<<4))
		case 1:
			a.emit(0xED, uint8(0x4A|rapid.IntRange(0, 2).Draw(t, "rr")<<4))
		default:
			a.emit(0xED, uint8(0x42|rapid.IntRange(0, 2).Draw(t, "rr")<<4))
		}
	case 14: // block transfer inside the data window
		n := rapid.IntRange(1, 16).Draw(t, "n")
		down := rapid.Bool().Draw(t, "down")
		s, d := g.dataAddr(n), g.dataAddr(n)
		op := uint8(0xB0)
		if down {
			s, d, op = s+uint16(n-1), d+uint16(n-1), 0xB8
		}
		a.emit(0x21)
		a.emit16(s)
		a.emit(0x11)
		a.emit16(d)
		a.emit(0x01)
		a.emit16(uint16(n))
		if rapid.IntRange(0, 5).Draw(t, "single") == 0 {
			op &^= 0x10
		}
		a.emit(0xED, op)
		g.tags["block"] = true
	case 15: // block search
		n := rapid.IntRange(1, 16).Draw(t, "n")
		s := g.dataAddr(n)
		op := uint8(0xB1)
		if rapid.Bool().Draw(t, "down") {
			s, op = s+uint16(n-1), 0xB9
		}
		a.emit(0x21)
		a.emit16(s)
		a.emit(0x01)
		a.emit16(uint16(n))
		a.emit(0x3E, rapid.Uint8().Draw(t, "needle"))
		a.emit(0xED, op)
		g.tags["block"] = true
	case 16: // block I/O
		n := rapid.IntRange(1, 12).Draw(t, "n")
		s := g.dataAddr(n)
		op := rapid.SampledFrom([]uint8{0xB3, 0xBB, 0xB2, 0xBA, 0xA3, 0xA2}).Draw(t, "ioop")
		if op&0x08 != 0 {
			s += uint16(n - 1)
		}
		a.emit(0x21)
		a.emit16(s)
		a.emit(0x06, uint8(n))
		a.emit(0x0E, rapid.Uint8().Draw(t, "port"))
		a.emit(0xED, op)
		g.tags["block"] = true
		g.tags["io"] = true
	default: // port I/O
		if rapid.Bool().Draw(t, "in") {
			a.emit(0xDB, rapid.Uint8().Draw(t, "port"))
		} else {
			a.emit(0xD3, rapid.Uint8().Draw(t, "port"))
		}
		g.tags["io"] = true
	}
}

func (g *progGen) block(depth, maxN int) {
	n := rapid.IntRange(1, maxN).Draw(g.t, "blockLen")
	for i := 0; i < n; i++ {
		g.stmt(depth)
	}
}

// stmt emits one statement, possibly compound.
func (g *progGen) stmt(depth int) {
	a, t := g.a, g.t
	k := 0
	if depth < 3 {
		k = rapid.IntRange(0, 11).Draw(t, "stmt")
	}
	switch k {
	case 6: // PUSH qq ; blk ; POP qq
		q := rapid.SampledFrom([]uint8{0xC5, 0xD5, 0xE5, 0xF5}).Draw(t, "qq")
		a.emit(q)
		g.block(depth+1, 3)
		a.emit(q &^ 0x04)
		g.tags["push-pop"] = true
	case 7: // CALL sub
		a.emit(0xCD)
		g.callSites = append(g.callSites, len(a.buf))
		g.callSub = append(g.callSub, rapid.IntRange(0, 2).Draw(t, "sub"))
		a.emit16(0)
		g.tags["call"] = true
	case 8: // LD B,n ; L: PUSH BC ; blk ; POP BC ; DJNZ L
		a.emit(0x06, uint8(rapid.IntRange(1, 5).Draw(t, "loopN")))
		l := len(a.buf)
		a.emit(0xC5)
		g.block(depth+1, 3)
		a.emit(0xC1)
		off := l - (len(a.buf) + 2)
		if off < -128 {
			// body too long for DJNZ: degrade to straight line (B := 1)
			a.buf[l-1] = 1
			off = 0 // falls through next instruction
			a.emit(0x10, 0x00)
		} else {
			a.emit(0x10, uint8(int8(off)))
		}
		g.tags["loop"] = true
	case 9: // DI ; blk ; EI
		a.emit(0xF3)
		g.block(depth+1, 4)
		a.emit(0xFB)
		g.tags["di-ei"] = true
	case 10: // JR cc,+len(stmt) ; stmt   |   JP cc,after ; stmt
		if rapid.Bool().Draw(t, "jr") {
			a.emit(rapid.SampledFrom([]uint8{0x20, 0x28, 0x30, 0x38}).Draw(t, "jrcc"), 0)
			at := len(a.buf)
			g.stmt(depth + 1)
			if d := len(a.buf) - at; d <= 127 {
				a.buf[at-1] = uint8(d)
			} else {
				a.buf[at-1] = 0
			}
		} else {
			a.emit(uint8(0xC2 | rapid.IntRange(0, 7).Draw(t, "jpcc")<<3))
			at := len(a.buf)
			a.emit16(0)
			g.stmt(depth + 1)
			a.patch16(at, a.pc())
		}
		g.tags["cond-jump"] = true
	default:
		g.simple()
	}
}

// handlerA emits 1..4 statements that use only A and F.
func (g *progGen) handlerA() {
	n := rapid.IntRange(1, 4).Draw(g.t, "hlen")
	for i := 0; i < n; i++ {
		switch rapid.IntRange(0, 3).Draw(g.t, "hstmt") {
		case 0:
			g.a.emit(0x3E, rapid.Uint8().Draw(g.t, "n"))
		case 1:
			g.a.emit(uint8(0xC6|rapid.IntRange(0, 7).Draw(g.t, "alu")<<3), rapid.Uint8().Draw(g.t, "n"))
		case 2:
			g.a.emit(rapid.SampledFrom([]uint8{0x2F, 0x37, 0x3F, 0x07, 0x1F, 0xAF}).Draw(g.t, "aop"))
		default:
			g.a.emit(0xED, 0x44)
		}
	}
}

// genProgram draws a complete program image.
func genProgram(t *rapid.T, maxStmts int) *program {
	p := &program{Image: map[uint16]uint8{}, Tags: map[string]bool{}}
	L := &p.L
	L.Kind = rapid.SampledFrom([]int{0, 0, 0, 1, 2}).Draw(t, "layout")
	// the maskable handler sits at an address whose two bytes are equal, so that the IM 2 table can hold
	// one byte value throughout: every vector byte, odd or even, with or without the project's masking of
	// its least significant bit, then dispatches to the handler (C06 restricts itself to even vectors,
	// C07 presupposes that the handler is reached)
	L.Org, L.Main, L.Data, L.Stack, L.HMask, L.HNMI = 0x0100, 0x0100, 0x4000, 0x8000, 0x2020, 0x0066
	L.IPage = uint8(rapid.IntRange(0x50, 0x7E).Draw(t, "ipage"))
	L.Cnt = 0x3000
	p.IFF = rapid.Bool().Draw(t, "iff")
	put := func(at uint16, b []uint8) {
		for i, x := range b {
			p.Image[at+uint16(i)] = x
		}
		p.Bytes = append(p.Bytes, progChunk{at, toInts(b)})
	}
	tags := p.Tags
	// main body
	g := &progGen{t: t, a: &asm{org: L.Main}, L: L, tags: tags}
	if rapid.IntRange(0, 3).Draw(t, "ei-first") != 0 {
		g.a.emit(0xFB)
	}
	n := rapid.IntRange(1, maxStmts).Draw(t, "nstmts")
	for i := 0; i < n; i++ {
		g.stmt(0)
	}
	L.Halt = g.a.pc()
	g.a.emit(0x76, 0x76, 0x76, 0x76) // room for interrupts that release the CPU from HALT (return address HALT+1)
	// subroutines
	var subAddr [3]uint16
	for i := range subAddr {
		subAddr[i] = g.a.pc()
		m := rapid.IntRange(1, 4).Draw(t, "sublen")
		for j := 0; j < m; j++ {
			g.simple()
		}
		g.a.emit(0xC9)
	}
	for i, at := range g.callSites {
		g.a.patch16(at, subAddr[g.callSub[i]])
	}
	L.CodeEnd = g.a.pc()
	put(L.Main, g.a.buf)
	switch L.Kind {
	case 1:
		// a short straight-line prologue that runs through 0xFFFF -> 0x0000 and then jumps to the main body
		L.NoRST0 = true
		pg := &progGen{t: t, a: &asm{}, L: L, tags: tags}
		m := rapid.IntRange(1, 5).Draw(t, "prologue")
		for j := 0; j < m; j++ {
			switch rapid.IntRange(0, 3).Draw(t, "pstmt") {
			case 0:
				pg.a.emit(uint8(0x06|pg.r8("r")<<3), rapid.Uint8().Draw(t, "n"))
			case 1:
				pg.a.emit(uint8(0x01 | rapid.IntRange(0, 2).Draw(t, "rr")<<4))
				pg.a.emit16(rapid.Uint16().Draw(t, "nn"))
			case 2:
				pg.a.emit(0xDD, 0x21)
				pg.a.emit16(rapid.Uint16().Draw(t, "nn"))
			default:
				pg.a.emit(uint8(0x80 | rapid.IntRange(0, 7).Draw(t, "alu")<<3 | pg.r8("r")))
			}
		}
		pg.a.emit(0xC3)
		pg.a.emit16(L.Main)
		// the JP must end at or before 0x0007 and the chunk must cross 0xFFFF
		endAt := uint16(rapid.IntRange(1, 8).Draw(t, "prologueEnd"))
		L.Org = endAt - uint16(len(pg.a.buf))
		if L.Org < 0x8000 { // prologue too short to cross the boundary: pad with NOPs in front
			pad := int(L.Org) + 2
			L.Org -= uint16(pad)
			pg.a.buf = append(make([]uint8, pad), pg.a.buf...)
		}
		put(L.Org, pg.a.buf)
		tags["code-wraps-ffff"] = true
	case 2:
		L.Stack = 0x0001
		L.NoRST0 = true
		tags["stack-wraps"] = true
	}
	// handlers
	hg := &progGen{t: t, a: &asm{org: L.HMask}, L: L, tags: tags}
	hg.a.emit(0xF5)
	hg.handlerA()
	hg.a.emit(0x3A)
	hg.a.emit16(L.Cnt)
	hg.a.emit(0x3C, 0x32)
	hg.a.emit16(L.Cnt)
	hg.a.emit(0xF1, 0xFB, 0xED, 0x4D)
	put(L.HMask, hg.a.buf)
	ng := &progGen{t: t, a: &asm{org: L.HNMI}, L: L, tags: tags}
	ng.a.emit(0xF5)
	ng.handlerA()
	ng.a.emit(0x3A)
	ng.a.emit16(L.Cnt)
	ng.a.emit(0x3C, 0x32)
	ng.a.emit16(L.Cnt)
	ng.a.emit(0xF1, 0xED, 0x45)
	put(L.HNMI, ng.a.buf)
	// RST targets (and the IM1 vector 0x0038): JP HMask
	for rp := 0; rp < 8; rp++ {
		if rp == 0 && L.NoRST0 {
			continue
		}
		put(uint16(rp*8), []uint8{0xC3, uint8(L.HMask), uint8(L.HMask >> 8)})
	}
	// IM2 table: 257 equal bytes (vector 0xFF unmasked reads the first byte of the next page)
	tbl := make([]uint8, 257)
	for i := range tbl {
		tbl[i] = uint8(L.HMask)
	}
	put(uint16(L.IPage)<<8, tbl)
	p.Seed = rapid.Uint64().Draw(t, "progseed")
	return p
}
