package core

import (
	"context"
	"encoding/json"
	"fmt"
	"testing"
	"time"

	"github.com/koron-go/z80"
	"github.com/koron-go/z80/verifharness/bus"
	"github.com/koron-go/z80/verifharness/eng"
	"github.com/koron-go/z80/verifharness/ref"
	"github.com/koron-go/z80/verifharness/stats"
	"pgregory.net/rapid"
)

// C14 over whole block operations: "block repetitions count" - when a block instruction has done its work and PC
// has moved on, R has advanced by two for every element, however the emulator got there (the per-Step comparison
// of the other C14 tests cannot see an emulator that does several elements in one Step and forgets their fetches).

type c14BlockCase struct {
	Op    int       `json:"op"` // second opcode byte (A0..A3, A8..AB, B0..B3, B8..BB)
	St    ref.State `json:"state"`
	Seed  uint64    `json:"memseed"`
	NilIO bool      `json:"nil_io,omitempty"`
	Dumb  bool      `json:"dumb,omitempty"` // emulator on the bundled DumbMemory (64 KiB)
}

type c14BlockRig struct {
	ib, mb *bus.Rec
	dumb   z80.DumbMemory
}

func (r *c14BlockRig) run(c *c14BlockCase) (msg string, elements int, skipped bool) {
	iofill := -1
	if c.NilIO {
		iofill = 0
	}
	r.ib.Reset(c.Seed, c.Seed^0x99, -1, iofill)
	r.mb.Reset(c.Seed, c.Seed^0x99, -1, iofill)
	r.ib.NoLog, r.mb.NoLog = true, true
	pc := c.St.PC
	for _, b := range []*bus.Rec{r.ib, r.mb} {
		b.Poke(pc, 0xED)
		b.Poke(pc+1, uint8(c.Op))
	}
	ms := c.St
	for n := 0; n < 70000 && ms.PC == pc; n++ {
		ref.Step(&ms, r.mb)
		elements++
	}
	if ms.PC != pc+2 || r.mb.Peek(pc) != 0xED || r.mb.Peek(pc+1) != uint8(c.Op) {
		return "", elements, true // the operation overwrote itself or did not finish: the lock-step tests decide those
	}
	var cpu z80.CPU
	cpu.Memory, cpu.IO = r.ib, r.ib
	if c.NilIO {
		cpu.IO = nil
	}
	if c.Dumb {
		if r.dumb == nil {
			r.dumb = make(z80.DumbMemory, 65536)
		}
		for a := 0; a < 65536; a++ {
			r.dumb[a] = r.ib.Peek(uint16(a))
		}
		cpu.Memory = r.dumb
	}
	st := c.St
	eng.ToCPU(&st, &cpu)
	steps := 0
	for ; steps < 70000 && cpu.PC == pc; steps++ {
		if p := eng.SafeStep(&cpu); p != nil {
			return "", elements, true // C12's business
		}
	}
	if cpu.PC != ms.PC {
		return "", elements, true // where the operation ends is C09's business
	}
	if cpu.IR.Lo != ms.R || cpu.IR.Hi != ms.I {
		return fmt.Sprintf("ED %02X with BC=%02x%02x from R=%02x: after the whole operation (%d elements, %d Steps) R=%02x I=%02x, want R=%02x I=%02x",
			c.Op, c.St.B, c.St.C, c.St.R, elements, steps, cpu.IR.Lo, cpu.IR.Hi, ms.R, ms.I), elements, false
	}
	return "", elements, false
}

func TestC14Blocks(t *testing.T) {
	col := stats.New("C14")
	col.Sub = "blocks"
	defer finish(t, col)
	col.Rule = "blocks: all 16 block encodings x drawn state with B in {0, 1, 2, 3, 64, 65, 127, 128, 129, 255, any} (BC below 700 for the memory forms), machine {recording bus, no I/O device, DumbMemory}: " +
		"Step until PC has left the instruction; R and I must equal those of the reference model run the same way (two fetches per element); non-trivial = more than one element; distinct by hash(op, state)"
	rig := &c14BlockRig{ib: bus.New(), mb: bus.New()}
	ops := []int{0xA0, 0xA1, 0xA2, 0xA3, 0xA8, 0xA9, 0xAA, 0xAB, 0xB0, 0xB1, 0xB2, 0xB3, 0xB8, 0xB9, 0xBA, 0xBB}
	rapid.Check(t, func(t *rapid.T) {
		d := drawStep(t, false)
		for _, op := range ops {
			c := c14BlockCase{Op: op, St: d.st, Seed: d.memSeed ^ uint64(op)<<32}
			c.St.Halt = false
			c.St.B = rapid.OneOf(rapid.SampledFrom([]uint8{0, 1, 2, 3, 64, 65, 127, 128, 129, 255}), rapid.Uint8()).Draw(t, "b")
			if op&3 < 2 { // LDx / CPx count with BC
				c.St.B &= 1
				if c.St.B == 1 && c.St.C > 0xB0 {
					c.St.C &= 0x7F
				}
			}
			switch rapid.IntRange(0, 3).Draw(t, "machine") {
			case 1:
				c.NilIO = true
			case 2:
				c.Dumb = rapid.IntRange(0, 7).Draw(t, "dumb") == 0 // (copies 64 KiB: not too often)
			}
			msg, n, skipped := rig.run(&c)
			col.Eval(1)
			if msg != "" {
				violation(t, "C14", "c14block", c, "two fetches per element of a block operation", msg)
			}
			if skipped {
				col.Label("blocks:no-verdict")
				continue
			}
			if c.NilIO {
				col.Label("blocks:no-io-device")
			}
			if n > 1 {
				col.LabelN("blocks:elements", int64(n))
				h := stats.Hash(uint64(op), stateHash(&c.St), c.Seed)
				col.Distinct(h)
				if col.WantSample(h) {
					col.Sample(h, c)
				}
			}
		}
	})
}

func init() {
	replayers["c14block"] = func(prop string, raw json.RawMessage) (string, error) {
		var c c14BlockCase
		if err := json.Unmarshal(raw, &c); err != nil {
			return "", err
		}
		m, _, _ := (&c14BlockRig{ib: bus.New(), mb: bus.New()}).run(&c)
		return m, nil
	}
}

// C14 under Run: R counts the fetches of every Step Run makes, the HALT's own and those spent halted on re-entry
// included - a host that drives the CPU with Run sees the same refresh counter as one that calls Step.
func TestC14Run(t *testing.T) {
	col := stats.New("C14")
	col.Sub = "run"
	defer finish(t, col)
	col.Rule = "run: generated terminating programs (C08's generator: break points, device scripts, 1..6 consecutive Run calls incl. calls on the parked CPU): after every Run call R and I equal those of a twin driven by " +
		"Step through the same stop rule (whose Steps the other C14 tests compare with the fetch-count rule); non-trivial = a call that ends on a HALT; distinct by hash(case)"
	rig := &c08Rig{}
	rapid.Check(t, func(t *rapid.T) {
		c, pcs, ok := genC08Case(t, rig, col)
		if !ok {
			return
		}
		var msg string
		halts := 0
		if pv := safely(func() {
			rig.setup(&c)
			rig.bps = map[uint16]bool{}
			if !c.NilBP {
				for _, b := range c.BPs {
					rig.bps[b] = true
				}
			}
			for call := 0; call < c.Runs && msg == ""; call++ {
				werr, steps, ok := rig.twinRunLive()
				if !ok {
					halts = -1
					return
				}
				ctx, cancel := context.WithTimeout(context.Background(), 20*time.Second)
				gerr := rig.ca.Run(ctx)
				cancel()
				if gerr != werr || rig.ca.PC != rig.cb.PC {
					halts = -1 // Run and Step disagree on where the call ends: C08's business
					return
				}
				if rig.ca.IR != rig.cb.IR {
					msg = fmt.Sprintf("Run call %d (%d Steps, ends with %v at PC=%04x): R=%02x I=%02x, the Step-driven twin has R=%02x I=%02x", call+1, steps, gerr, rig.ca.PC,
						rig.ca.IR.Lo, rig.ca.IR.Hi, rig.cb.IR.Lo, rig.cb.IR.Hi)
				}
				if gerr == nil {
					halts++
				}
			}
		}); pv != nil {
			col.Label("run:discarded:step-panics")
			return
		}
		col.Eval(1)
		if halts < 0 {
			col.Label("run:no-verdict")
			return
		}
		if msg != "" {
			violation(t, "C14", "run", c, "R after Run equals R after the same Steps", msg)
		}
		if halts > 0 {
			h := stats.Hash(uint64(c.Runs), uint64(len(c.BPs)), uint64(len(pcs)), c.SoupSeed, 0xC14)
			if c.Prog != nil {
				h = stats.Hash(h, c.Prog.Seed, uint64(c.Prog.L.CodeEnd))
			}
			col.Distinct(h)
			col.Label("run:call-ends-on-halt")
			if halts > 1 {
				col.Label("run:called-again-on-the-parked-cpu")
			}
			if col.WantSample(h) && (c.Prog == nil || len(c.Prog.Bytes[0].Code) < 60) {
				col.Sample(h, c)
			}
		}
	})
}
