package core

import (
	"context"
	"encoding/json"
	"errors"
	"fmt"
	"testing"
	"time"

	"github.com/koron-go/z80"
	"github.com/koron-go/z80/verifharness/stats"
	"pgregory.net/rapid"
)

// C10 under Run: a host that drives the CPU with Run takes its snapshots where Run returns. A CPU rebuilt there from
// a copy of States, the pending request, the break points and a copy of memory, and continued with Run, must do
// exactly what the original does when it is continued with Run.

// c10RunPlay: the original runs call after call; before every call a clone is built from the original's public state
// and makes the same call.
func c10RunPlay(r *c08Rig, c *c08Case) (msg string, stops int) {
	r.setup(c)
	for call := 0; call < c.Runs; call++ {
		clone := func() {
			// the clone: a brand-new CPU value (every other call: a struct copy given its own machine)
			if call%2 == 0 {
				r.cb = z80.CPU{States: r.ca.States}
			} else {
				r.cb = r.ca
			}
			r.cb.Memory, r.cb.IO = &r.mb, &r.mb
			if c.NilIO {
				r.cb.IO = nil
			}
			r.cb.HALT = r.ca.HALT
			r.cb.Interrupt = nil
			if r.ca.Interrupt != nil {
				it := *r.ca.Interrupt
				it.Data = append([]uint8(nil), r.ca.Interrupt.Data...)
				r.cb.Interrupt = &it
			}
			r.cb.BreakPoints = nil
			if r.ca.BreakPoints != nil {
				r.cb.BreakPoints = map[uint16]struct{}{}
				for k := range r.ca.BreakPoints {
					r.cb.BreakPoints[k] = struct{}{}
				}
			}
			r.mb.m = r.ma.m
			r.mb.ioSeed, r.mb.nIn, r.mb.nAcc = r.ma.ioSeed, r.ma.nIn, r.ma.nAcc
			r.mb.outs = append(r.mb.outs[:0], r.ma.outs...)
		}
		// will this call return at all? a Step-driven scout (a clone as well) finds out; programs that run on for ever
		// are not this check's business (C08, C12)
		clone()
		bps := map[uint16]bool{}
		for k := range r.cb.BreakPoints {
			bps[k] = true
		}
		if _, _, ok := twinRun(&r.cb, bps); !ok {
			return "", -1
		}
		clone()
		var errs [2]error
		for i, cpu := range []*z80.CPU{&r.ca, &r.cb} {
			ctx, cancel := context.WithTimeout(context.Background(), 20*time.Second)
			errs[i] = cpu.Run(ctx)
			cancel()
		}
		if errors.Is(errs[0], context.DeadlineExceeded) {
			return fmt.Sprintf("Run call %d did not return within 20 s although a Step-driven CPU rebuilt from the same state stops", call+1), stops
		}
		if errs[0] != errs[1] {
			return fmt.Sprintf("Run call %d: the original returns %v (PC=%04x), the CPU rebuilt from its state before the call returns %v (PC=%04x)", call+1, errs[0], r.ca.PC, errs[1], r.cb.PC), stops
		}
		if r.ca.States != r.cb.States {
			g, w := stFromStates(r.cb.States), stFromStates(r.ca.States)
			m := fmtStateDiff(&g, &w)
			if g.R != w.R {
				m += fmt.Sprintf(" R=%02x want %02x", g.R, w.R)
			}
			return fmt.Sprintf("Run call %d: the rebuilt CPU ends elsewhere than the original: %s", call+1, m), stops
		}
		if r.ca.HALT != r.cb.HALT || (r.ca.Interrupt == nil) != (r.cb.Interrupt == nil) {
			return fmt.Sprintf("Run call %d: HALT / pending request differ between the original and the rebuilt CPU", call+1), stops
		}
		if r.ma.m != r.mb.m || r.ma.nAcc != r.mb.nAcc || len(r.ma.outs) != len(r.mb.outs) {
			return fmt.Sprintf("Run call %d: memory, access count or port output differ between the original and the rebuilt CPU", call+1), stops
		}
		if errs[0] != nil {
			stops++
		}
	}
	return "", stops
}

func TestC10RunSnapshot(t *testing.T) {
	col := stats.New("C10")
	col.Sub = "run-snapshot"
	defer finish(t, col)
	col.Rule = "run-snapshot: generated terminating programs x breakpoint sets on visited addresses x device scripts x 1..6 consecutive Run calls (C08's generator): before every call a CPU is rebuilt from the " +
		"original's States, pending request, break points and a copy of the machine (alternately a brand-new value and a struct copy) and makes the same call; error, registers incl. R, HALT, pending request, memory, " +
		"access count and port output must be equal after every call; non-trivial = at least one call returned at a break point; distinct by hash(case)"
	rig := &c08Rig{}
	rapid.Check(t, func(t *rapid.T) {
		c, pcs, ok := genC08Case(t, rig, col)
		if !ok {
			return
		}
		c.BPSets, c.InPlace = nil, false
		if c.Runs < 2 {
			c.Runs = 2
		}
		var msg string
		var stops int
		if pv := safely(func() { msg, stops = c10RunPlay(rig, &c) }); pv != nil {
			col.Label("discarded:step-panics")
			return
		}
		col.Eval(1)
		if stops < 0 {
			col.Label("discarded:program-does-not-stop")
			return
		}
		if msg != "" {
			violation(t, "C10", "runsnap", c, "the rebuilt CPU continues exactly like the original", msg)
		}
		col.LabelN("run-calls", int64(c.Runs))
		if stops > 0 {
			col.Label("snapshot-at-breakpoint-stop")
			h := stats.Hash(uint64(c.Runs), uint64(len(c.BPs)), uint64(len(pcs)), c.SoupSeed, uint64(stops))
			if c.Prog != nil {
				h = stats.Hash(h, c.Prog.Seed, uint64(c.Prog.L.CodeEnd))
			}
			col.Distinct(h)
			if col.WantSample(h) && (c.Prog == nil || len(c.Prog.Bytes[0].Code) < 60) {
				col.Sample(h, c)
			}
		}
	})
}

func init() {
	replayers["runsnap"] = func(prop string, raw json.RawMessage) (string, error) {
		var c c08Case
		if err := json.Unmarshal(raw, &c); err != nil {
			return "", err
		}
		m, _ := c10RunPlay(&c08Rig{}, &c)
		return m, nil
	}
}
