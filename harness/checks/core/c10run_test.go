package core

import (
	"context"
	"encoding/json"
	"errors"
	"fmt"
	"sync"
	"testing"
	"time"

	"github.com/koron-go/z80"
	"github.com/koron-go/z80/verifharness/stats"
	"pgregory.net/rapid"
)

// C10 under Run: a host that drives the CPU with Run takes its snapshots where Run returns. A CPU rebuilt there from
// a copy of States, the pending request, the break points and a copy of memory, and continued with Run, must do
// exactly what the original does when it is continued with Run.

// c10RunPlay: the original runs call after call; before every call a clone is built from the original's public state
// and makes the same call.
func c10RunPlay(r *c08Rig, c *c08Case) (msg string, stops int) {
	r.setup(c)
	for call := 0; call < c.Runs; call++ {
		clone := func() {
			// the clone: a brand-new CPU value (every other call: a struct copy given its own machine)
			if call%2 == 0 {
				r.cb = z80.CPU{States: r.ca.States}
			} else {
				r.cb = r.ca
			}
			r.cb.Memory, r.cb.IO = &r.mb, &r.mb
			if c.NilIO {
				r.cb.IO = nil
			}
			r.cb.HALT = r.ca.HALT
			r.cb.Interrupt = nil
			if r.ca.Interrupt != nil {
				it := *r.ca.Interrupt
				it.Data = append([]uint8(nil), r.ca.Interrupt.Data...)
				r.cb.Interrupt = &it
			}
			r.cb.BreakPoints = nil
			if r.ca.BreakPoints != nil {
				r.cb.BreakPoints = map[uint16]struct{}{}
				for k := range r.ca.BreakPoints {
					r.cb.BreakPoints[k] = struct{}{}
				}
			}
			r.mb.m = r.ma.m
			r.mb.ioSeed, r.mb.nIn, r.mb.nAcc = r.ma.ioSeed, r.ma.nIn, r.ma.nAcc
			r.mb.outs = append(r.mb.outs[:0], r.ma.outs...)
		}
		// will this call return at all? a Step-driven scout (a clone as well) finds out; programs that run on for ever
		// are not this check's business (C08, C12)
		clone()
		bps := map[uint16]bool{}
		for k := range r.cb.BreakPoints {
			bps[k] = true
		}
		if _, _, ok := twinRun(&r.cb, bps); !ok {
			return "", -1
		}
		clone()
		var errs [2]error
		for i, cpu := range []*z80.CPU{&r.ca, &r.cb} {
			ctx, cancel := context.WithTimeout(context.Background(), 20*time.Second)
			errs[i] = cpu.Run(ctx)
			cancel()
		}
		if errors.Is(errs[0], context.DeadlineExceeded) {
			return fmt.Sprintf("Run call %d did not return within 20 s although a Step-driven CPU rebuilt from the same state stops", call+1), stops
		}
		if errs[0] != errs[1] {
			return fmt.Sprintf("Run call %d: the original returns %v (PC=%04x), the CPU rebuilt from its state before the call returns %v (PC=%04x)", call+1, errs[0], r.ca.PC, errs[1], r.cb.PC), stops
		}
		if r.ca.States != r.cb.States {
			g, w := stFromStates(r.cb.States), stFromStates(r.ca.States)
			m := fmtStateDiff(&g, &w)
			if g.R != w.R {
				m += fmt.Sprintf(" R=%02x want %02x", g.R, w.R)
			}
			return fmt.Sprintf("Run call %d: the rebuilt CPU ends elsewhere than the original: %s", call+1, m), stops
		}
		if r.ca.HALT != r.cb.HALT || (r.ca.Interrupt == nil) != (r.cb.Interrupt == nil) {
			return fmt.Sprintf("Run call %d: HALT / pending request differ between the original and the rebuilt CPU", call+1), stops
		}
		if r.ma.m != r.mb.m || r.ma.nAcc != r.mb.nAcc || len(r.ma.outs) != len(r.mb.outs) {
			return fmt.Sprintf("Run call %d: memory, access count or port output differ between the original and the rebuilt CPU", call+1), stops
		}
		if errs[0] != nil {
			stops++
		}
	}
	return "", stops
}

func TestC10RunSnapshot(t *testing.T) {
	col := stats.New("C10")
	col.Sub = "run-snapshot"
	defer finish(t, col)
	col.Rule = "run-snapshot: generated terminating programs x breakpoint sets on visited addresses x device scripts x 1..6 consecutive Run calls (C08's generator): before every call a CPU is rebuilt from the " +
		"original's States, pending request, break points and a copy of the machine (alternately a brand-new value and a struct copy) and makes the same call; error, registers incl. R, HALT, pending request, memory, " +
		"access count and port output must be equal after every call; non-trivial = at least one call returned at a break point; distinct by hash(case)"
	rig := &c08Rig{}
	rapid.Check(t, func(t *rapid.T) {
		c, pcs, ok := genC08Case(t, rig, col)
		if !ok {
			return
		}
		c.BPSets, c.InPlace = nil, false
		c.Script = noArmEvents(c.Script)
		if c.Runs < 2 {
			c.Runs = 2
		}
		var msg string
		var stops int
		if pv := safely(func() { msg, stops = c10RunPlay(rig, &c) }); pv != nil {
			col.Label("discarded:step-panics")
			return
		}
		col.Eval(1)
		if stops < 0 {
			col.Label("discarded:program-does-not-stop")
			return
		}
		if msg != "" {
			violation(t, "C10", "runsnap", c, "the rebuilt CPU continues exactly like the original", msg)
		}
		col.LabelN("run-calls", int64(c.Runs))
		if stops > 0 {
			col.Label("snapshot-at-breakpoint-stop")
			h := stats.Hash(uint64(c.Runs), uint64(len(c.BPs)), uint64(len(pcs)), c.SoupSeed, uint64(stops))
			if c.Prog != nil {
				h = stats.Hash(h, c.Prog.Seed, uint64(c.Prog.L.CodeEnd))
			}
			col.Distinct(h)
			if col.WantSample(h) && (c.Prog == nil || len(c.Prog.Bytes[0].Code) < 60) {
				col.Sample(h, c)
			}
		}
	})
}

func init() {
	replayers["runsnap"] = func(prop string, raw json.RawMessage) (string, error) {
		var c c08Case
		if err := json.Unmarshal(raw, &c); err != nil {
			return "", err
		}
		m, _ := c10RunPlay(&c08Rig{}, &c)
		return m, nil
	}
}

// runCalls makes the case's Run calls on the rig's first CPU and records how each one ended.
type runCallResult struct {
	err    error
	states z80.States
	halt   bool
}

func c10RunCalls(r *c08Rig, c *c08Case) (out []runCallResult, ok bool) {
	r.setup(c)
	for call := 0; call < c.Runs; call++ {
		ctx, cancel := context.WithTimeout(context.Background(), 20*time.Second)
		err := r.ca.Run(ctx)
		cancel()
		if errors.Is(err, context.DeadlineExceeded) {
			return out, false
		}
		out = append(out, runCallResult{err, r.ca.States, r.ca.HALT})
	}
	return out, true
}

// TestC10RunConcurrent: several hosts drive their own CPUs with Run at the same time, each stopping at its own
// break points; every call must end as it does when that host is alone, and the race detector must stay silent.
func TestC10RunConcurrent(t *testing.T) {
	col := stats.New("C10")
	col.Sub = "run-concurrent"
	defer finish(t, col)
	col.Rule = "run-concurrent: rounds of 2..8 goroutines, each making 2..6 Run calls on its own CPU, machine and break-point set (C08's generator) while the others make theirs; error, registers and HALT after every call " +
		"must equal the same calls made alone; race detector on; non-trivial = at least two hosts stop at break points; distinct by hash(round)"
	gen := &c08Rig{}
	rigs := make([]*c08Rig, 8)
	for i := range rigs {
		rigs[i] = &c08Rig{}
	}
	rapid.Check(t, func(t *rapid.T) {
		g := rapid.IntRange(2, 8).Draw(t, "goroutines")
		cases := make([]c08Case, 0, g)
		solo := make([][]runCallResult, 0, g)
		var rh uint64
		for len(cases) < g {
			c, pcs, ok := genC08Case(t, gen, col)
			if !ok {
				return
			}
			c.BPSets, c.InPlace = nil, false
			c.Script = noArmEvents(c.Script)
			if c.Runs < 2 {
				c.Runs = 2
			}
			// does every call return? (a Step-driven scout decides, as in TestC10RunSnapshot)
			if m, stops := c10RunPlay(gen, &c); m != "" || stops < 0 {
				col.Label("discarded:program-does-not-stop-or-left-to-run-snapshot")
				return
			}
			res, ok := c10RunCalls(gen, &c)
			if !ok {
				return
			}
			cases, solo = append(cases, c), append(solo, res)
			rh = stats.Hash(rh, uint64(len(pcs)), uint64(len(c.BPs)), c.SoupSeed)
		}
		msgs := make([]string, g)
		var wg sync.WaitGroup
		start := make(chan struct{})
		for i := 0; i < g; i++ {
			wg.Add(1)
			go func(i int) {
				defer wg.Done()
				<-start
				for rep := 0; rep < 3; rep++ {
					res, ok := c10RunCalls(rigs[i], &cases[i])
					if !ok || len(res) != len(solo[i]) {
						msgs[i] = fmt.Sprintf("host %d of %d: a Run call that returns when the host is alone did not return", i, g)
						return
					}
					for k := range res {
						if res[k].err != solo[i][k].err || res[k].states != solo[i][k].states || res[k].halt != solo[i][k].halt {
							msgs[i] = fmt.Sprintf("host %d of %d: Run call %d ends with %v at PC=%04x, alone with %v at PC=%04x", i, g, k+1, res[k].err, res[k].states.PC, solo[i][k].err, solo[i][k].states.PC)
							return
						}
					}
				}
			}(i)
		}
		close(start)
		wg.Wait()
		col.Eval(int64(g))
		for i, m := range msgs {
			if m != "" {
				violation(t, "C10", "runsnap", cases[i], "same result as when the host is alone", m)
			}
		}
		stopping := 0
		for i := range solo {
			for _, r := range solo[i] {
				if r.err != nil {
					stopping++
					break
				}
			}
		}
		if stopping >= 2 {
			col.Distinct(rh)
			col.Label("two-or-more-hosts-stop-at-break-points")
			if col.WantSample(rh) {
				col.Sample(rh, map[string]any{"hosts": g, "first": cases[0]})
			}
		}
	})
}

// noArmEvents drops the script events that edit break points (in C08's rig they are mirrored into the Step-driven
// twin's own set, which the Run-driven clones of these tests do not have).
func noArmEvents(sc []c08Script) []c08Script {
	var out []c08Script
	for _, ev := range sc {
		if ev.Kind != "armbp" && ev.Kind != "newbps" {
			out = append(out, ev)
		}
	}
	return out
}
