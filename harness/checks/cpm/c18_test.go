package cpm

import (
	"bytes"
	"context"
	"encoding/json"
	"fmt"
	"log"
	"os"
	"path/filepath"
	"runtime"
	"sort"
	"strings"
	"sync"
	"testing"
	"time"

	"github.com/koron-go/z80"
	"github.com/koron-go/z80/internal/tinycpm"
	"github.com/koron-go/z80/verifharness/stats"
	"pgregory.net/rapid"
)

// C18 — the mini CP/M machine prints what programs ask for and returns
// control correctly.

var env stats.Env

func TestMain(m *testing.M) {
	env = stats.Load()
	os.Exit(m.Run())
}

type call struct {
	Kind string `json:"kind"` // fn2 | fn9 | bad | out | in
	E    int    `json:"e,omitempty"`
	Addr int    `json:"addr,omitempty"` // fn9: string address
	Str  []int  `json:"str,omitempty"`  // fn9: bytes before the '$'
	Fn   int    `json:"fn,omitempty"`   // bad: function number
	Port int    `json:"port,omitempty"`
	A    int    `json:"a,omitempty"`
	// Regs (fn2, fn9, bad): values loaded into B, A, H, L (and D for fn2) before LD C,fn - the BDOS reads C and E / DE only
	Regs []int `json:"regs,omitempty"`
}

type c18Case struct {
	SP       int    `json:"sp"` // -1: tight - the stack top sits two bytes above the end of the program (room for the return address only)
	Calls    []call `json:"calls"`
	LoadFile bool   `json:"load_file"`
	// Reconf: the console writer is configured twice; 1: first a bytes.Buffer, then a Write-only writer;
	// 2: first a Write-only writer, then a bytes.Buffer. Only the last one may receive output.
	Reconf int `json:"reconf,omitempty"`
	// Writer: what the console writer is. 0: a bytes.Buffer; 1: a writer that records what it is handed but answers the
	// FailAt-th Write with an error (a transient fault of the host's console); 2: an *os.File (a file in the work directory)
	Writer int `json:"writer,omitempty"`
	FailAt int `json:"fail_at,omitempty"`
}

// flakyWriter records every byte it is handed; one call reports an error.
type flakyWriter struct {
	b      []byte
	calls  int
	failAt int
	failed int
}

func (f *flakyWriter) Write(x []byte) (int, error) {
	f.calls++
	f.b = append(f.b, x...)
	if f.calls == f.failAt {
		f.failed++
		return 0, fmt.Errorf("transient console fault (injected by the harness)")
	}
	return len(x), nil
}

// plainWriter has nothing but Write.
type plainWriter struct{ b []byte }

func (p *plainWriter) Write(x []byte) (int, error) { p.b = append(p.b, x...); return len(x), nil }

const progAt = 0x0100

type assembled struct {
	code    []byte
	retAddr []int // return address of every CALL 5, in order
	strs    map[int][]byte
}

func assemble(c *c18Case) assembled {
	var a assembled
	a.strs = map[int][]byte{}
	emit := func(b ...byte) { a.code = append(a.code, b...) }
	emit(0x31, byte(c.SP), byte(c.SP>>8)) // LD SP,nn
	for _, cl := range c.Calls {
		if len(cl.Regs) == 5 && (cl.Kind == "fn2" || cl.Kind == "fn9" || cl.Kind == "bad") {
			emit(0x06, byte(cl.Regs[0]), 0x3E, byte(cl.Regs[1]), 0x26, byte(cl.Regs[2]), 0x2E, byte(cl.Regs[3])) // LD B,n; LD A,n; LD H,n; LD L,n
			if cl.Kind == "fn2" {
				emit(0x16, byte(cl.Regs[4])) // LD D,n
			}
		}
		switch cl.Kind {
		case "fn2":
			emit(0x0E, 2, 0x1E, byte(cl.E), 0xCD, 0x05, 0x00)
			a.retAddr = append(a.retAddr, progAt+len(a.code))
		case "fn9":
			emit(0x0E, 9, 0x11, byte(cl.Addr), byte(cl.Addr>>8), 0xCD, 0x05, 0x00)
			a.retAddr = append(a.retAddr, progAt+len(a.code))
			s := append(toBytes(cl.Str), '$')
			a.strs[cl.Addr] = s
		case "bad":
			emit(0x0E, byte(cl.Fn), 0xCD, 0x05, 0x00)
			a.retAddr = append(a.retAddr, progAt+len(a.code))
		case "out":
			emit(0x3E, byte(cl.A), 0xD3, byte(cl.Port))
		case "in":
			emit(0xDB, byte(cl.Port))
		}
	}
	emit(0xC3, 0x00, 0x00) // JP 0
	return a
}

func toBytes(a []int) []byte {
	b := make([]byte, len(a))
	for i, x := range a {
		b[i] = byte(x)
	}
	return b
}

type outcome struct {
	msg  string
	nt   bool
	bad  bool
	outs int
}

func run(c *c18Case) (o outcome) {
	defer func() {
		if p := recover(); p != nil {
			o.msg = fmt.Sprintf("panic: %v", p)
		}
	}()
	a := assemble(c)
	if c.SP < 0 {
		// tight stack: re-assemble with SP = end of program + 2
		c2 := *c
		c2.SP = progAt + len(a.code) + 2
		a = assemble(&c2)
		defer func(sp int) { c.SP = sp }(c.SP)
		c.SP = c2.SP
	}
	mem, io := tinycpm.New()
	if c.LoadFile {
		dir, err := os.MkdirTemp(os.Getenv("VERIF_WORK"), "cpm")
		if err != nil {
			return outcome{msg: "HARNESS: " + err.Error()}
		}
		defer os.RemoveAll(dir)
		f := filepath.Join(dir, "prog.cim")
		if err := os.WriteFile(f, a.code, 0o644); err != nil {
			return outcome{msg: "HARNESS: " + err.Error()}
		}
		if err := mem.LoadFile(f); err != nil {
			return outcome{msg: "LoadFile failed: " + err.Error()}
		}
	} else {
		for i, b := range a.code {
			mem.Set(uint16(progAt+i), b)
		}
	}
	for at, s := range a.strs {
		for i, b := range s {
			mem.Set(uint16(at+i), b)
		}
	}
	var console, warn, first bytes.Buffer
	plainFirst, plainLast := &plainWriter{}, &plainWriter{}
	consoleBytes := func() []byte { return console.Bytes() }
	switch c.Reconf {
	case 1:
		io.SetStdout(&first)
		io.SetStdout(plainLast)
		consoleBytes = func() []byte { return plainLast.b }
	case 2:
		io.SetStdout(plainFirst)
		io.SetStdout(&console)
	default:
		io.SetStdout(&console)
	}
	flaky := &flakyWriter{failAt: c.FailAt}
	switch {
	case c.Reconf != 0:
	case c.Writer == 1:
		io.SetStdout(flaky)
		consoleBytes = func() []byte { return flaky.b }
	case c.Writer == 2:
		f, err := os.CreateTemp(os.Getenv("VERIF_WORK"), "console")
		if err != nil {
			return outcome{msg: "HARNESS: " + err.Error()}
		}
		defer os.Remove(f.Name())
		defer f.Close()
		io.SetStdout(f)
		consoleBytes = func() []byte {
			b, _ := os.ReadFile(f.Name())
			return b
		}
	}
	io.SetWarnLogger(log.New(&warn, "[WARN]", 0))
	cpu := z80.CPU{States: z80.States{SPR: z80.SPR{PC: progAt}}, Memory: mem, IO: io, BreakPoints: map[uint16]struct{}{}}
	for _, r := range a.retAddr {
		cpu.BreakPoints[uint16(r)] = struct{}{}
	}
	// expectation
	var want []byte
	warnings := 0
	callIdx := 0
	badSeen := false
	ctx, cancel := context.WithTimeout(context.Background(), 30*time.Second)
	defer cancel()
	for _, cl := range c.Calls {
		if badSeen {
			break
		}
		switch cl.Kind {
		case "out":
			warnings++
			continue
		case "in":
			warnings++
			continue
		case "fn2":
			want = append(want, byte(cl.E))
		case "fn9":
			want = append(want, toBytes(cl.Str)...)
		case "bad":
			badSeen = true
		}
		err := cpu.Run(ctx)
		if badSeen {
			// unsupported function: the property is silent; only "no panic, output so far is as expected"
			if !bytes.HasPrefix(want, consoleBytes()) && !bytes.Equal(want, consoleBytes()) {
				return outcome{msg: "console output before an unsupported function call is not what was asked for"}
			}
			return outcome{bad: true, nt: true}
		}
		if err != z80.ErrBreakPoint {
			return outcome{msg: fmt.Sprintf("call %d (%s): Run returned %v before reaching the return address (PC=%04x)", callIdx, cl.Kind, err, cpu.PC)}
		}
		if int(cpu.PC) != a.retAddr[callIdx] {
			return outcome{msg: fmt.Sprintf("call %d (%s): returned to %04x want %04x", callIdx, cl.Kind, cpu.PC, a.retAddr[callIdx])}
		}
		if int(cpu.SP) != c.SP {
			return outcome{msg: fmt.Sprintf("call %d (%s): SP=%04x after return, want %04x", callIdx, cl.Kind, cpu.SP, c.SP)}
		}
		if !bytes.Equal(consoleBytes(), want) {
			return outcome{msg: fmt.Sprintf("call %d (%s): console holds %d bytes %q, want %d bytes %q", callIdx, cl.Kind, len(consoleBytes()), clip(consoleBytes()), len(want), clip(want))}
		}
		callIdx++
	}
	if err := cpu.Run(ctx); err != nil {
		return outcome{msg: fmt.Sprintf("final Run returned %v", err)}
	}
	if cpu.PC != 0xFF03 || !cpu.HALT {
		return outcome{msg: fmt.Sprintf("run ended at PC=%04x HALT=%v, want halted at FF03", cpu.PC, cpu.HALT)}
	}
	if !bytes.Equal(consoleBytes(), want) {
		return outcome{msg: fmt.Sprintf("console holds %q, want %q", clip(consoleBytes()), clip(want))}
	}
	for i, b := range a.code {
		if mem.Get(uint16(progAt+i)) != b {
			return outcome{msg: fmt.Sprintf("program byte at %04x was modified", progAt+i)}
		}
	}
	for at, s := range a.strs {
		for i, b := range s {
			if mem.Get(uint16(at+i)) != b {
				return outcome{msg: fmt.Sprintf("string byte at %04x was modified", at+i)}
			}
		}
	}
	if first.Len() != 0 || len(plainFirst.b) != 0 {
		return outcome{msg: "console output went to a writer that had been replaced by SetStdout"}
	}
	if n := strings.Count(warn.String(), "\n"); n != warnings && !(flaky.failed > 0 && n == warnings+flaky.failed) {
		// (a console fault may be reported through the warning logger as well)
		return outcome{msg: fmt.Sprintf("%d warning lines for %d stray port accesses: %q", n, warnings, clip(warn.Bytes()))}
	}
	o.outs = len(want)
	return o
}

func clip(b []byte) []byte {
	if len(b) > 48 {
		return append(append([]byte{}, b[:48]...), "..."...)
	}
	return b
}

func replayFiles() []string {
	if f := os.Getenv("VERIF_REPLAY_FILE"); f != "" {
		return []string{f}
	}
	m, _ := filepath.Glob(filepath.Join(os.Getenv("VERIF_REPLAY_DIR"), "C18", "*.json"))
	sort.Strings(m)
	return m
}

func TestReplay(t *testing.T) {
	n := 0
	for _, f := range replayFiles() {
		b, err := os.ReadFile(f)
		if err != nil {
			continue
		}
		var d struct {
			Case c18Case `json:"case"`
		}
		if err := json.Unmarshal(b, &d); err != nil {
			t.Errorf("HARNESS: %s: %v", f, err)
			continue
		}
		n++
		if o := run(&d.Case); o.msg != "" {
			fmt.Printf("REPLAY-FAIL property=C18 file=%s %s\n", f, o.msg)
			t.Fail()
		}
	}
	fmt.Printf("REPLAYED %d\n", n)
}

func TestC18(t *testing.T) {
	col := stats.New("C18")
	col.Sub = "cpm"
	defer func() {
		if err := col.Write(env); err != nil {
			t.Errorf("HARNESS: %v", err)
		}
	}()
	col.Rule = "generated CP/M client programs: LD SP,nn then a drawn list of calls - function 2 with any E, function 9 with a string of 0..4096 bytes of any value but '$' at a drawn address outside page 0, " +
		"the program, the stack and 0xFE00-0xFFFF, unsupported function numbers, stray OUT (n),A with n != 0 and IN A,(n) - ending in JP 0; loaded with LoadFile or Set; half of the programs load drawn values into B, A, H, L (D) before every call; console writer = bytes.Buffer, a recording writer that answers one Write with an error, or an *os.File; breakpoint after every CALL 5; " +
		"oracle = console buffer equals the concatenation of the requested bytes at every breakpoint and at the end, PC = return address and SP = caller's SP at every breakpoint, run ends halted at 0xFF03, " +
		"program bytes intact, exactly one warning line per stray port access; non-trivial = >= 2 calls of both kinds, or a string with 0x00 / a byte >= 0x80 / empty; distinct by hash(program)"
	rapid.Check(t, func(t *rapid.T) {
		var c c18Case
		// incl. the CP/M convention LD SP,(6) = 0xFE06: the stack sits directly below the BDOS entry
		c.SP = rapid.SampledFrom([]int{0xF000, 0x8000, 0xFE00, 0xC000, 0x0000, 0xFE06, 0xFE06, 0xFE04, 0xFE02, 0xFF00, 0x0100, 0xFFFE}).Draw(t, "sp")
		c.LoadFile = rapid.IntRange(0, 3).Draw(t, "loadfile") == 0
		if rapid.IntRange(0, 4).Draw(t, "tight") == 0 {
			c.SP = -1
		}
		if rapid.IntRange(0, 3).Draw(t, "reconf") == 0 {
			c.Reconf = rapid.IntRange(1, 2).Draw(t, "reconfKind")
		}
		switch rapid.IntRange(0, 7).Draw(t, "writer") {
		case 0:
			c.Writer, c.FailAt = 1, rapid.IntRange(1, 12).Draw(t, "failAt")
		case 1:
			c.Writer = 2
		}
		n := rapid.IntRange(1, 8).Draw(t, "ncalls")
		// string area: 0x1000..0xBFFF, bump allocated with drawn gaps (never overlaps program, page 0, BIOS; stack sits at SP-2..SP-1)
		next := 0x1000
		for i := 0; i < n; i++ {
			k := rapid.IntRange(0, 9).Draw(t, "kind")
			switch {
			case k < 3:
				c.Calls = append(c.Calls, call{Kind: "fn2", E: int(rapid.Uint8().Draw(t, "e"))})
			case k < 7:
				ln := rapid.OneOf(rapid.SampledFrom([]int{0, 1, 2, 255, 256, 4096}), rapid.IntRange(0, 300)).Draw(t, "strlen")
				gap := rapid.IntRange(0, 64).Draw(t, "gap")
				addr := next + gap
				if addr+ln+1 >= 0x7FF0 {
					ln = 3
				}
				style := rapid.IntRange(0, 3).Draw(t, "style")
				s := make([]int, ln)
				for j := range s {
					var b int
					switch style {
					case 0:
						b = int(rapid.Uint8().Draw(t, "b"))
					case 1:
						b = []int{0x00, 0x80, 0xFF, 0x23, 0x25, 0x0A}[j%6]
					default:
						b = 0x20 + (j*7+i)%0x5F
					}
					if b == '$' {
						b = '#'
					}
					s[j] = b
				}
				c.Calls = append(c.Calls, call{Kind: "fn9", Addr: addr, Str: s})
				next = addr + ln + 1
			case k == 7:
				c.Calls = append(c.Calls, call{Kind: "out", Port: rapid.IntRange(1, 255).Draw(t, "port"), A: int(rapid.Uint8().Draw(t, "a"))})
			case k == 8:
				c.Calls = append(c.Calls, call{Kind: "in", Port: rapid.IntRange(0, 255).Draw(t, "port")})
			default:
				if rapid.IntRange(0, 3).Draw(t, "bad?") == 0 {
					c.Calls = append(c.Calls, call{Kind: "bad", Fn: rapid.SampledFrom([]int{0, 1, 3, 8, 10, 255}).Draw(t, "fn")})
				} else {
					c.Calls = append(c.Calls, call{Kind: "fn2", E: '$'})
				}
			}
		}
		if rapid.IntRange(0, 1).Draw(t, "regs?") == 0 {
			// whatever else the registers hold when the BDOS is called (a live loop counter in B, ...)
			for i := range c.Calls {
				c.Calls[i].Regs = []int{int(rapid.Uint8().Draw(t, "b")), int(rapid.Uint8().Draw(t, "a")), int(rapid.Uint8().Draw(t, "h")), int(rapid.Uint8().Draw(t, "l")), int(rapid.Uint8().Draw(t, "d"))}
			}
		}
		o := run(&c)
		col.Eval(1)
		if o.msg != "" {
			stats.WriteViolation(env, stats.Violation{Property: "C18", Engine: "cpm", Case: c, Expect: "console output and control flow as requested", Got: o.msg})
			t.Fatalf("VIOLATION-CANDIDATE C18 %s", o.msg)
		}
		n2, n9, special := 0, 0, false
		h := uint64(c.SP)
		for _, cl := range c.Calls {
			h = stats.Hash(h, uint64(len(cl.Kind)), uint64(cl.E), uint64(cl.Addr), uint64(len(cl.Str)), uint64(cl.Port))
			switch cl.Kind {
			case "fn2":
				n2++
			case "fn9":
				n9++
				if len(cl.Str) == 0 {
					special = true
				}
				for _, b := range cl.Str {
					h = stats.Hash(h, uint64(b))
					if b == 0 || b >= 0x80 {
						special = true
					}
				}
			case "out", "in":
				col.Label("stray-port-access")
			}
		}
		if o.bad {
			col.Label("unsupported-function")
		}
		if c.LoadFile {
			col.Label("loaded-with-LoadFile")
		}
		if c.SP < 0 {
			col.Label("tight-stack-above-code")
		}
		if c.Reconf > 0 {
			col.Label("console-reconfigured")
		} else if c.Writer == 1 {
			col.Label("console-writer-with-a-transient-fault")
		} else if c.Writer == 2 {
			col.Label("console-writer-is-an-os-file")
		}
		if len(c.Calls[0].Regs) > 0 {
			col.Label("other-registers-loaded-before-calls")
		}
		if (n2 >= 1 && n9 >= 1 && n2+n9 >= 2) || special {
			col.Distinct(h)
			if col.WantSample(h) {
				small := c
				for i := range small.Calls {
					if len(small.Calls[i].Str) > 16 {
						cl := small.Calls[i]
						cl.Str = append(append([]int{}, cl.Str[:16]...), -1)
						small.Calls = append(append([]call{}, small.Calls[:i]...), append([]call{cl}, small.Calls[i+1:]...)...)
					}
				}
				col.Sample(h, small)
			}
		}
	})
}

// handoffWriter passes every Write to a reader goroutine and returns only when the reader has copied
// the bytes (it does not retain p after returning, as io.Writer demands) - like an io.Pipe. While one
// machine waits inside Write, other machines go on printing.
type handoffWriter struct {
	ch  chan []byte
	ack chan struct{}
	got []byte
}

func newHandoff() *handoffWriter {
	h := &handoffWriter{ch: make(chan []byte), ack: make(chan struct{})}
	go func() {
		for p := range h.ch {
			runtime.Gosched()
			h.got = append(h.got, p...)
			h.ack <- struct{}{}
		}
		close(h.ack)
	}()
	return h
}

func (h *handoffWriter) Write(p []byte) (int, error) {
	h.ch <- p
	<-h.ack
	return len(p), nil
}

// TestC18Concurrent: several mini CP/M machines print at the same time, each through its own writer;
// every console must still receive exactly its own program's bytes, in order (built with -race).
func TestC18Concurrent(t *testing.T) {
	col := stats.New("C18")
	col.Sub = "concurrent"
	defer func() {
		if err := col.Write(env); err != nil {
			t.Errorf("HARNESS: %v", err)
		}
	}()
	col.Rule = "concurrent: 2..8 machines in their own goroutines print generated strings through hand-off writers (Write returns after a reader goroutine has copied the bytes); " +
		"each console must hold exactly its program's output; race detector on; non-trivial = every round"
	rapid.Check(t, func(t *rapid.T) {
		n := rapid.IntRange(2, 8).Draw(t, "machines")
		ln := rapid.IntRange(20, 400).Draw(t, "len")
		seed := rapid.Uint64().Draw(t, "seed")
		wants := make([][]byte, n)
		gots := make([][]byte, n)
		errs := make([]string, n)
		var wg sync.WaitGroup
		for i := 0; i < n; i++ {
			s := make([]int, ln)
			for j := range s {
				b := int(stats.Hash(seed, uint64(i), uint64(j)) & 0xff)
				if b == '$' {
					b = '#'
				}
				s[j] = b
			}
			c := c18Case{SP: 0xF000, Calls: []call{{Kind: "fn9", Addr: 0x2000, Str: s}, {Kind: "fn2", E: 'A' + i}, {Kind: "fn9", Addr: 0x4000, Str: s[:ln/2]}}}
			wants[i] = append(append(append([]byte{}, toBytes(s)...), byte('A'+i)), toBytes(s[:ln/2])...)
			wg.Add(1)
			go func(i int, c c18Case) {
				defer wg.Done()
				defer func() {
					if p := recover(); p != nil {
						errs[i] = fmt.Sprint("panic: ", p)
					}
				}()
				a := assemble(&c)
				mem, io := tinycpm.New()
				for k, b := range a.code {
					mem.Set(uint16(progAt+k), b)
				}
				for at, str := range a.strs {
					for k, b := range str {
						mem.Set(uint16(at+k), b)
					}
				}
				h := newHandoff()
				io.SetStdout(h)
				io.SetWarnLogger(log.New(&bytes.Buffer{}, "", 0))
				cpu := z80.CPU{States: z80.States{SPR: z80.SPR{PC: progAt}}, Memory: mem, IO: io}
				ctx, cancel := context.WithTimeout(context.Background(), 30*time.Second)
				defer cancel()
				if err := cpu.Run(ctx); err != nil {
					errs[i] = fmt.Sprint("Run returned ", err)
				}
				close(h.ch)
				<-h.ack
				gots[i] = h.got
			}(i, c)
		}
		wg.Wait()
		col.Eval(int64(n))
		for i := 0; i < n; i++ {
			if errs[i] == "" && !bytes.Equal(gots[i], wants[i]) {
				errs[i] = fmt.Sprintf("machine %d of %d received %d bytes %q, want %d bytes %q", i, n, len(gots[i]), clip(gots[i]), len(wants[i]), clip(wants[i]))
			}
			if errs[i] != "" {
				stats.WriteViolation(env, stats.Violation{Property: "C18", Engine: "cpm-concurrent", Case: map[string]any{"machines": n, "len": ln, "seed": seed},
					Expect: "every console receives exactly its own program's output", Got: errs[i]})
				t.Fatalf("VIOLATION-CANDIDATE C18 %s", errs[i])
			}
		}
		col.Distinct(stats.Hash(seed, uint64(n), uint64(ln)))
		if col.WantSample(seed) {
			col.Sample(seed, map[string]any{"machines": n, "len": ln, "seed": seed})
		}
	})
}
