package cim

import "unicode"

// rapidPrintable: ASCII printable characters that survive an exec argument unchanged.
func rapidPrintable() *unicode.RangeTable {
	return &unicode.RangeTable{R16: []unicode.Range16{{Lo: 0x21, Hi: 0x7E, Stride: 1}}, LatinOffset: 1}
}
