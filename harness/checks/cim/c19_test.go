package cim

import (
	"bytes"
	"encoding/json"
	"fmt"
	"os"
	"os/exec"
	"path/filepath"
	"sort"
	"sync/atomic"
	"testing"
	"time"

	"github.com/koron-go/z80/verifharness/stats"
	"pgregory.net/rapid"
)

// C19 — cim2bin and cim2cas wrap any image in a correct MSX container, body
// unaltered. The two commands are built from the current tree and executed.

var env stats.Env
var binDir string

func repoDir() string {
	if d := os.Getenv("VERIF_REPO"); d != "" {
		return d
	}
	return "/repo"
}

func TestMain(m *testing.M) {
	env = stats.Load()
	work := os.Getenv("VERIF_WORK")
	dir, err := os.MkdirTemp(work, "cimbin")
	if err != nil {
		fmt.Println("HARNESS: ", err)
		os.Exit(2)
	}
	binDir = dir
	for _, c := range []string{"cim2bin", "cim2cas"} {
		cmd := exec.Command("go", "build", "-o", filepath.Join(dir, c), "./cmd/"+c)
		cmd.Dir = repoDir()
		cmd.Env = append(os.Environ(), "GOFLAGS=-mod=readonly")
		if out, err := cmd.CombinedOutput(); err != nil {
			fmt.Printf("HARNESS: cannot build %s: %v\n%s\n", c, err, out)
			os.RemoveAll(dir)
			os.Exit(2)
		}
	}
	rc := m.Run()
	os.RemoveAll(dir)
	os.Exit(rc)
}

type c19Case struct {
	Off     int    `json:"off"`
	OffForm string `json:"off_form"` // dec | hex | default
	Len     int    `json:"len"`
	Seed    uint64 `json:"seed"`
	Style   int    `json:"style"`
	Name    string `json:"name"`    // -nam value; "" = flag omitted (cim2cas then uses the -cim argument)
	CimName string `json:"cimname"` // file name of the input (relative, cwd = its directory)
	Stale   int    `json:"stale"`   // > 0: the output files already exist and hold this many junk bytes
	// Feed: how the image reaches the tool. 0: a regular file; 1: through a pipe (-cim=/dev/stdin);
	// 2: in place - the output path is the input path (the tool reads the image, then rewrites the file)
	Feed int `json:"feed,omitempty"`
	// Spell: how the -cim argument names the file (the default tape name is that argument, the "input CIM file name"
	// of the flag, as given). 0: plain; 1: "./name"; 2: "d/../name"; 3: ".//name"
	Spell int `json:"spell,omitempty"`
	// OutPipe: the containers are written to /dev/stdout, which is a pipe (cim2cas -cas /dev/stdout | ...)
	OutPipe bool `json:"out_pipe,omitempty"`
	// EmptyNam: the name has length 0 and -nam is passed all the same (-nam=): the default name applies as when omitted
	EmptyNam bool `json:"empty_nam,omitempty"`
}

func image(c *c19Case) []byte {
	b := make([]byte, c.Len)
	for i := range b {
		switch c.Style {
		case 0:
			b[i] = byte(stats.Hash(c.Seed, uint64(i)))
		case 1:
			b[i] = []byte{0x00, 0xFF, 0xFE, 0x1F, 0xD0, 0x0A, 0x0D, 0x1A}[i%8] // container magic, line ends, ^Z
		case 5:
			b[i] = byte(stats.Hash(c.Seed, uint64(i)) >> 8)
		case 3:
			b[i] = 0x1A // CP/M end-of-file padding all the way
		default:
			b[i] = byte(i)
		}
	}
	if c.Style == 5 {
		// the image contains the cassette sync header and runs of the type byte (data that looks like container
		// structure), at drawn positions incl. every residue modulo 8
		sync := []byte{0x1F, 0xA6, 0xDE, 0xBA, 0xCC, 0x13, 0x7D, 0x74}
		for k := 0; k < 4; k++ {
			at := int(stats.Hash(c.Seed, 0x51, uint64(k)) % uint64(c.Len+1))
			if k == 0 {
				at = int(c.Seed>>3) & 15
			}
			if k%2 == 0 {
				copy(b[min(at, len(b)):], sync)
			} else {
				copy(b[min(at, len(b)):], bytes.Repeat([]byte{0xD0}, 10))
			}
		}
	}
	if c.Style == 4 && c.Len >= 8 {
		// the image is itself a well-formed BIN container (e.g. the output of cim2bin fed to cim2cas)
		start := int(c.Seed>>8) & 0xFFFF
		if start+c.Len-7 > 0x10000 {
			start = 0x10000 - (c.Len - 7)
		}
		end := start + c.Len - 8
		copy(b, []byte{0xFE, byte(start), byte(start >> 8), byte(end), byte(end >> 8), byte(start), byte(start >> 8)})
	}
	return b
}

// expected containers, written from the property text
func wantBin(off int, img []byte) []byte {
	end := off + len(img) - 1
	out := []byte{0xFE, byte(off), byte(off >> 8), byte(end), byte(end >> 8), byte(off), byte(off >> 8)}
	return append(out, img...)
}

func wantCas(off int, name string, img []byte) []byte {
	sync := []byte{0x1F, 0xA6, 0xDE, 0xBA, 0xCC, 0x13, 0x7D, 0x74}
	out := append([]byte{}, sync...)
	for i := 0; i < 10; i++ {
		out = append(out, 0xD0)
	}
	nm := []byte(name)
	if len(nm) > 6 {
		nm = nm[:6]
	}
	for len(nm) < 6 {
		nm = append(nm, ' ')
	}
	out = append(out, nm...)
	out = append(out, sync...)
	end := off + len(img) - 1
	out = append(out, byte(off), byte(off>>8), byte(end), byte(end>>8), byte(off), byte(off>>8))
	return append(out, img...)
}

var seq int64

func run(c *c19Case) string {
	dir := filepath.Join(binDir, fmt.Sprintf("case-%d-%d", env.Shard, atomic.AddInt64(&seq, 1)))
	if err := os.MkdirAll(dir, 0o755); err != nil {
		return "HARNESS: " + err.Error()
	}
	defer os.RemoveAll(dir)
	img := image(c)
	if err := os.WriteFile(filepath.Join(dir, c.CimName), img, 0o644); err != nil {
		return "HARNESS: " + err.Error()
	}
	if c.Stale > 0 {
		junk := bytes.Repeat([]byte{0xE5}, c.Stale)
		for _, n := range []string{"out.bin", "out.cas"} {
			if err := os.WriteFile(filepath.Join(dir, n), junk, 0o644); err != nil {
				return "HARNESS: " + err.Error()
			}
		}
	}
	off := c.Off
	var offArgs []string
	switch c.OffForm {
	case "dec":
		offArgs = []string{fmt.Sprintf("-off=%d", off)}
	case "hex":
		offArgs = []string{fmt.Sprintf("-off=0x%x", off)}
	default:
		off = 0xA000
	}
	exe := func(tool string, args ...string) ([]byte, string) {
		cmd := exec.Command(filepath.Join(binDir, tool), args...)
		cmd.Dir = dir
		var stdout, stderr bytes.Buffer
		cmd.Stdout, cmd.Stderr = &stdout, &stderr
		if c.Feed == 1 {
			// the producer at the other end of the pipe delivers the image in pieces (a reader must read until EOF)
			w, err := cmd.StdinPipe()
			if err != nil {
				return nil, "HARNESS: " + err.Error()
			}
			if err := cmd.Start(); err != nil {
				return nil, "HARNESS: " + err.Error()
			}
			pieces := 1 + int(c.Seed>>5)%4
			for k := 0; k < pieces; k++ {
				lo, hi := len(img)*k/pieces, len(img)*(k+1)/pieces
				if _, err := w.Write(img[lo:hi]); err != nil {
					break
				}
				if k+1 < pieces {
					time.Sleep(3 * time.Millisecond) // lets a reader that does not wait for EOF come up short (no part of the verdict)
				}
			}
			w.Close()
			if err := cmd.Wait(); err != nil {
				return nil, fmt.Sprintf("%s %v failed: %v: %s", tool, args, err, bytes.TrimSpace(stderr.Bytes()))
			}
			return stdout.Bytes(), ""
		}
		if err := cmd.Run(); err != nil {
			return nil, fmt.Sprintf("%s %v failed: %v: %s", tool, args, err, bytes.TrimSpace(stderr.Bytes()))
		}
		return stdout.Bytes(), ""
	}
	cimArg, binOut, casOut := c.CimName, "out.bin", "out.cas"
	outPipe := c.OutPipe && c.Feed != 2
	if outPipe {
		binOut, casOut = "/dev/stdout", "/dev/stdout"
	}
	switch c.Spell {
	case 1:
		cimArg = "./" + c.CimName
	case 2:
		if err := os.MkdirAll(filepath.Join(dir, "d"), 0o755); err != nil {
			return "HARNESS: " + err.Error()
		}
		cimArg = "d/../" + c.CimName
	case 3:
		cimArg = ".//" + c.CimName
	}
	switch c.Feed {
	case 1:
		cimArg = "/dev/stdin"
	case 2:
		// in place: work on copies of the image file so that both tools see the original
		for _, n := range []string{"inplace.bin", "inplace.cas"} {
			if err := os.WriteFile(filepath.Join(dir, n), img, 0o644); err != nil {
				return "HARNESS: " + err.Error()
			}
		}
		binOut, casOut = "inplace.bin", "inplace.cas"
	}
	// cim2bin
	binIn := cimArg
	if c.Feed == 2 {
		binIn = binOut
	}
	piped, m := exe("cim2bin", append([]string{"-cim=" + binIn, "-bin=" + binOut}, offArgs...)...)
	if m != "" {
		return m
	}
	got, err := piped, error(nil)
	if !outPipe {
		got, err = os.ReadFile(filepath.Join(dir, binOut))
	}
	if err != nil {
		return "cim2bin wrote no output: " + err.Error()
	}
	if w := wantBin(off, img); !bytes.Equal(got, w) {
		return "cim2bin: " + diff(got, w)
	}
	// cim2cas
	casIn := cimArg
	if c.Feed == 2 {
		casIn = casOut
	}
	args := append([]string{"-cim=" + casIn, "-cas=" + casOut}, offArgs...)
	name := c.Name
	if c.Name != "" {
		args = append(args, "-nam="+c.Name)
	} else {
		name = casIn
		if c.EmptyNam {
			args = append(args, "-nam=")
		}
	}
	if piped, m = exe("cim2cas", args...); m != "" {
		return m
	}
	got = piped
	if !outPipe {
		got, err = os.ReadFile(filepath.Join(dir, casOut))
	}
	if err != nil {
		return "cim2cas wrote no output: " + err.Error()
	}
	if w := wantCas(off, name, img); !bytes.Equal(got, w) {
		return "cim2cas: " + diff(got, w)
	}
	// the input must not have been touched
	if again, _ := os.ReadFile(filepath.Join(dir, c.CimName)); !bytes.Equal(again, img) {
		return "input image was modified"
	}
	return ""
}

func diff(got, want []byte) string {
	if len(got) != len(want) {
		return fmt.Sprintf("output has %d bytes, want %d", len(got), len(want))
	}
	for i := range got {
		if got[i] != want[i] {
			return fmt.Sprintf("byte %d is %02x, want %02x", i, got[i], want[i])
		}
	}
	return ""
}

func replayFiles() []string {
	if f := os.Getenv("VERIF_REPLAY_FILE"); f != "" {
		return []string{f}
	}
	m, _ := filepath.Glob(filepath.Join(os.Getenv("VERIF_REPLAY_DIR"), "C19", "*.json"))
	sort.Strings(m)
	return m
}

func TestReplay(t *testing.T) {
	n := 0
	for _, f := range replayFiles() {
		b, err := os.ReadFile(f)
		if err != nil {
			continue
		}
		var d struct {
			Case c19Case `json:"case"`
		}
		if err := json.Unmarshal(b, &d); err != nil {
			t.Errorf("HARNESS: %s: %v", f, err)
			continue
		}
		n++
		if m := run(&d.Case); m != "" {
			fmt.Printf("REPLAY-FAIL property=C19 file=%s %s\n", f, m)
			t.Fail()
		}
	}
	fmt.Printf("REPLAYED %d\n", n)
}

func TestC19(t *testing.T) {
	col := stats.New("C19")
	col.Sub = "cim"
	defer func() {
		if err := col.Write(env); err != nil {
			t.Errorf("HARNESS: %v", err)
		}
	}()
	col.Rule = "cim2bin and cim2cas built from the current tree and executed on rapid-drawn inputs: load offset (edges 0, 1, 0x8000, 0xA000, 0xFFFF and uniform; passed in decimal, 0x-hex or omitted = default 0xA000), " +
		"image length 1..min(65536-off, 8192) plus exact-fit lengths (end = 0xFFFF, incl. 65536 bytes at offset 0), contents (hashed, container-magic / ^Z / line-end bytes, ramp, whole CP/M records, a BIN container, data containing the cassette sync header and runs of D0 at every alignment), name of 0..12 printable bytes " +
		"(0 = -nam omitted or passed empty: the -cim argument as given is the name, whatever its extension, also when spelled ./name, d/../name, .//name; 1/4 with multi-byte characters, the field is six bytes), output files fresh, already existing with junk of another length, the input file itself, or /dev/stdout feeding a pipe; image from a file or through /dev/stdin (delivered in 1..4 pieces); oracle = independently written container encoder, output files must be byte-equal, exit status 0, input untouched; " +
		"non-trivial = length >= 2 and (offset not the default or name length != 6); distinct by hash(case)"
	rapid.Check(t, func(t *rapid.T) {
		var c c19Case
		c.OffForm = rapid.SampledFrom([]string{"dec", "hex", "hex", "default"}).Draw(t, "offForm")
		c.Off = rapid.OneOf(rapid.SampledFrom([]int{0, 1, 0x8000, 0xA000, 0xFFFF, 0xFFFE, 0xC000}), rapid.IntRange(0, 0xFFFF)).Draw(t, "off")
		if c.OffForm == "default" {
			c.Off = 0xA000
		}
		room := 65536 - c.Off
		switch rapid.IntRange(0, 5).Draw(t, "lenShape") {
		case 0:
			c.Len = room // exact fit: end = 0xFFFF
		case 1:
			c.Len = 1
		case 2:
			c.Len = max(1, room-1)
		default:
			c.Len = rapid.IntRange(1, min(room, 8192)).Draw(t, "len")
		}
		c.Seed = rapid.Uint64().Draw(t, "seed")
		c.Style = rapid.IntRange(0, 5).Draw(t, "style")
		if c.Style == 3 && rapid.Bool().Draw(t, "len128") {
			c.Len = min(room, 128*rapid.IntRange(1, 8).Draw(t, "records")) // whole CP/M records ending in ^Z
		}
		printable := rapid.StringOfN(rapid.RuneFrom(nil, rapidPrintable()), 0, 12, -1)
		c.Name = printable.Draw(t, "name")
		if rapid.IntRange(0, 3).Draw(t, "nonascii") == 0 {
			// names are byte strings for the container: multi-byte characters must still give a six-byte field
			c.Name = rapid.StringOfN(rapid.RuneFrom([]rune("aZ9_éÿßテスﾄ漢€")), 1, 8, -1).Draw(t, "name8")
		}
		switch rapid.IntRange(0, 9).Draw(t, "blanks") {
		case 0: // a name of blanks only is still a name
			c.Name = "            "[:rapid.IntRange(1, 12).Draw(t, "nblank")]
		case 1: // blanks inside / at the ends
			c.Name = " " + c.Name + " "
			if len(c.Name) > 12 {
				c.Name = c.Name[:12]
			}
		}
		c.Feed = rapid.SampledFrom([]int{0, 0, 0, 0, 1, 2}).Draw(t, "feed")
		if rapid.IntRange(0, 2).Draw(t, "stale") == 0 {
			c.Stale = rapid.SampledFrom([]int{1, 7, 24, 100000, 70000}).Draw(t, "staleLen")
		}
		if len(c.Name) > 0 && c.Name[0] == '-' {
			c.Name = "N" + c.Name[1:]
		}
		c.CimName = rapid.SampledFrom([]string{"a.cim", "input.cim", "zexdoc.cim", "x", "longer-name.cim", "prog.bas", "GAME.BAS", "data.bin", "tape.cas", "a.rom", "x.asc", "noext."}).Draw(t, "cimname")
		c.EmptyNam = c.Name == "" && rapid.Bool().Draw(t, "emptyNam")
		c.Spell = rapid.SampledFrom([]int{0, 0, 0, 1, 2, 3}).Draw(t, "spell")
		c.OutPipe = rapid.IntRange(0, 4).Draw(t, "outPipe") == 0
		msg := run(&c)
		col.Eval(1)
		if msg != "" {
			stats.WriteViolation(env, stats.Violation{Property: "C19", Engine: "cim", Case: c, Expect: "MSX BIN / CAS container around the unmodified image", Got: msg})
			t.Fatalf("VIOLATION-CANDIDATE C19 %s", msg)
		}
		if c.Len == room {
			col.Label("exact-fit-end-ffff")
		}
		if c.Name == "" {
			col.Label("default-name")
		}
		if len(c.Name) > 6 {
			col.Label("name-truncated")
		}
		if c.Stale > 0 {
			col.Label("output-file-existed")
		}
		if c.OutPipe && c.Feed != 2 {
			col.Label("output-through-pipe")
		}
		if c.Spell != 0 && c.Feed == 0 {
			col.Label("cim-argument-with-directory-part")
			if c.Name == "" {
				col.Label("default-name-from-argument-with-directory-part")
			}
		}
		switch c.Feed {
		case 1:
			col.Label("image-through-pipe")
		case 2:
			col.Label("converted-in-place")
		}
		for _, r := range c.Name {
			if r > 0x7f {
				col.Label("non-ascii-name")
				break
			}
		}
		col.Label("off-form:" + c.OffForm)
		if c.Len >= 2 && (c.Off != 0xA000 || len(c.Name) != 6) {
			h := stats.Hash(uint64(c.Off), uint64(c.Len), c.Seed, uint64(c.Style), uint64(len(c.Name)), uint64(len(c.CimName)))
			for _, r := range c.Name {
				h = stats.Hash(h, uint64(r))
			}
			col.Distinct(h)
			if col.WantSample(h) {
				col.Sample(h, c)
			}
		}
	})
}
