package total

import (
	"context"
	"encoding/json"
	"fmt"
	"log"
	"os"
	"path/filepath"
	"sort"
	"strings"
	"sync/atomic"
	"testing"
	"time"

	"github.com/koron-go/z80"
	"github.com/koron-go/z80/verifharness/stats"
	"pgregory.net/rapid"
)

// C12 — Step and Run are total: no input makes the emulator panic or hang.

var env stats.Env
var logLines int64

type countingWriter struct{}

func (countingWriter) Write(p []byte) (int, error) {
	atomic.AddInt64(&logLines, 1)
	return len(p), nil
}

func TestMain(m *testing.M) {
	env = stats.Load()
	log.SetOutput(countingWriter{})
	log.SetFlags(0)
	os.Exit(m.Run())
}

type intrEv struct {
	AtStep int   `json:"at_step"`
	Type   int   `json:"type"`
	Data   []int `json:"data"`
	Long   bool  `json:"long,omitempty"` // data of 65537 bytes (contents = Data repeated)
	// AtAccess > 0: in the wrapped run the request is raised by the memory itself (a memory-mapped interrupt
	// controller) at the AtAccess-th memory access of Step AtStep - possibly in the middle of the acknowledge
	// of another request; in the unwrapped run it is set before that Step like the others
	AtAccess int `json:"at_access,omitempty"`
	// Every: in the wrapped run the memory raises this request afresh at every one of its accesses from Step AtStep
	// on (a device that keeps its line asserted): each Step still returns
	Every bool `json:"every,omitempty"`
}

type totalCase struct {
	AF, BC, DE, HL uint16
	IX, IY, SP, PC uint16
	IR             uint16
	IFF1, IFF2     bool
	IM             int
	MemKind        int // 0: 64 KiB array, 1: DumbMemory of MemLen bytes, 2: MapMemory
	MemLen         int
	IOKind         int // 0: nil, 1: DumbIO of IOLen bytes, 2: recording
	IOLen          int
	Code           []int // placed at PC
	Tail           []int // placed at 0xFFF0..
	Fill           int   // byte the 64 KiB array / DumbMemory is filled with
	Intr           []intrEv
	Steps          int
}

type cntMem struct {
	inner  z80.Memory
	reads  []uint16
	writes int
	n      int    // accesses in this Step
	fireAt int    // call fire at this access
	fire   func() // device callback
	storm  func() // device callback made at every access
}

func (c *cntMem) tick() {
	c.n++
	if c.n == c.fireAt && c.fire != nil {
		c.fire()
	}
	if c.storm != nil {
		c.storm()
	}
}

func (c *cntMem) Get(a uint16) uint8 {
	c.reads = append(c.reads, a)
	c.tick()
	return c.inner.Get(a)
}
func (c *cntMem) Set(a uint16, v uint8) {
	c.writes++
	c.tick()
	c.inner.Set(a, v)
}

type cntIO struct {
	inner z80.IO
	n     int
}

func (c *cntIO) In(a uint8) uint8 { c.n++; return c.inner.In(a) }
func (c *cntIO) Out(a, v uint8)   { c.n++; c.inner.Out(a, v) }

type recIO struct{ last uint8 }

func (r *recIO) In(a uint8) uint8 { return a ^ r.last }
func (r *recIO) Out(a, v uint8)   { r.last = v }

// build constructs the machine. With wrap=false the bundled types are handed to the CPU directly
// (so that type-specific fast paths in the emulator are reached); with wrap=true they sit behind
// counting wrappers that let the invalid-opcode rule look at the accesses.
func build(c *totalCase, wrap bool) (*z80.CPU, *cntMem, *cntIO) {
	var mem z80.Memory
	put := func(a uint16, v uint8) {}
	switch c.MemKind {
	case 1:
		n := c.MemLen
		if n < 0 {
			n = 0
		}
		if n > 65536 {
			n = 65536
		}
		dm := make(z80.DumbMemory, n)
		for i := range dm {
			dm[i] = uint8(c.Fill)
		}
		mem = dm
		put = func(a uint16, v uint8) { dm.Set(a, v) }
	case 2:
		mm := z80.MapMemory{}
		mem = mm
		put = func(a uint16, v uint8) { mm.Set(a, v) }
	default:
		dm := make(z80.DumbMemory, 65536)
		for i := range dm {
			dm[i] = uint8(c.Fill)
		}
		mem = dm
		put = func(a uint16, v uint8) { dm.Set(a, v) }
	}
	for i, b := range c.Code {
		put(c.PC+uint16(i), uint8(b))
	}
	for i, b := range c.Tail {
		put(0xFFF0+uint16(i), uint8(b))
	}
	var cm *cntMem
	cpu := &z80.CPU{Memory: mem}
	if wrap {
		cm = &cntMem{inner: mem}
		cpu.Memory = cm
	}
	var cio *cntIO
	var dev z80.IO
	switch c.IOKind {
	case 1:
		n := c.IOLen
		if n < 0 {
			n = 0
		}
		if n > 300 {
			n = 300
		}
		dev = make(z80.DumbIO, n)
	case 2:
		dev = &recIO{}
	}
	if dev != nil {
		cpu.IO = dev
		if wrap {
			cio = &cntIO{inner: dev}
			cpu.IO = cio
		}
	}
	cpu.AF.SetU16(c.AF)
	cpu.BC.SetU16(c.BC)
	cpu.DE.SetU16(c.DE)
	cpu.HL.SetU16(c.HL)
	cpu.IX, cpu.IY, cpu.SP, cpu.PC = c.IX, c.IY, c.SP, c.PC
	cpu.IR.SetU16(c.IR)
	cpu.IFF1, cpu.IFF2, cpu.IM = c.IFF1, c.IFF2, c.IM
	return cpu, cm, cio
}

func mkIntr(ev *intrEv) *z80.Interrupt {
	var d []uint8
	if ev.Long {
		d = make([]uint8, 65537)
		for i := range d {
			if len(ev.Data) > 0 {
				d[i] = uint8(ev.Data[i%len(ev.Data)])
			}
		}
	} else if ev.Data != nil {
		d = make([]uint8, len(ev.Data))
		for i, x := range ev.Data {
			d[i] = uint8(x)
		}
	}
	return &z80.Interrupt{Type: z80.InterruptType(ev.Type), Data: d}
}

type totalOutcome struct {
	msg      string
	invalid  int  // Steps that logged "invalid code"
	halted   bool // the program executed a HALT within the Step bound
	ranRun   bool // ... and Run was checked on a fresh copy
	hung     bool // a Step never returned: the goroutine is still spinning, the process must end after reporting
	shortAcc bool
	intr     int
	wrapPfx  bool
	byDevice int  // requests raised by the memory during a Step
	reRun    bool // Run was called again on a CPU parked on a HALT that carries a break point
}

// stepBudget: a Step normally takes nanoseconds; one that has not returned after this long never will
const stepBudget = 20 * time.Second

// safeStep runs one Step under recover; the whole case runs under a watchdog (runTotalMode).
func safeStep(c *z80.CPU) (p any) {
	defer func() { p = recover() }()
	c.Step()
	return nil
}

func runTotal(c *totalCase) totalOutcome {
	o := runTotalMode(c, false)
	if o.msg != "" {
		return o
	}
	return runTotalMode(c, true)
}

// runTotalMode runs the case in its own goroutine under a watchdog, so that a Step that spins for ever
// is reported instead of wedging the process.
func runTotalMode(c *totalCase, wrap bool) totalOutcome {
	ch := make(chan totalOutcome, 1)
	var at int64 // Step index << 16 | PC, for the report
	go func() { ch <- runTotalInner(c, wrap, &at) }()
	watchdog.Reset(stepBudget + 25*time.Second)
	select {
	case o := <-ch:
		if !watchdog.Stop() {
			select {
			case <-watchdog.C:
			default:
			}
		}
		return o
	case <-watchdog.C:
		v := atomic.LoadInt64(&at)
		return totalOutcome{hung: true, msg: fmt.Sprintf("Step %d did not return within %v (PC=%04x)", v>>16+1, stepBudget, v&0xffff)}
	}
}

var watchdog = func() *time.Timer {
	t := time.NewTimer(time.Hour)
	t.Stop()
	return t
}()

func runTotalInner(c *totalCase, wrap bool, at *int64) totalOutcome {
	var o totalOutcome
	cpu, cm, cio := build(c, wrap)
	steps := c.Steps
	if steps <= 0 {
		steps = 1
	}
	if steps > 256 {
		steps = 256
	}
	haltedAt := -1
	for s := 0; s < steps; s++ {
		if cm != nil {
			cm.n, cm.fireAt, cm.fire = 0, 0, nil
		}
		for i := range c.Intr {
			if c.Intr[i].AtStep == s {
				if ev := &c.Intr[i]; ev.Every && cm != nil {
					cm.storm = func() { cpu.Interrupt = mkIntr(ev); o.byDevice++ }
				} else if ev.AtAccess > 0 && cm != nil {
					cm.fireAt, cm.fire = ev.AtAccess, func() { cpu.Interrupt = mkIntr(ev); o.byDevice++ }
				} else {
					cpu.Interrupt = mkIntr(&c.Intr[i])
				}
				o.intr++
			}
		}
		pending := cpu.Interrupt != nil
		pre := cpu.States
		atomic.StoreInt64(at, int64(s)<<16|int64(pre.PC))
		if cm != nil {
			cm.reads, cm.writes = cm.reads[:0], 0
		}
		if cio != nil {
			cio.n = 0
		}
		l0 := atomic.LoadInt64(&logLines)
		if p := safeStep(cpu); p != nil {
			o.msg = fmt.Sprintf("Step %d panicked: %v", s+1, p)
			return o
		}
		if atomic.LoadInt64(&logLines) != l0 && !pending {
			// unsupported opcode: consumed, execution continues with the next byte
			o.invalid++
			post := cpu.States
			adv := post.PC - pre.PC
			chk := post
			chk.PC, chk.IR.Lo = pre.PC, pre.IR.Lo
			if chk != pre {
				o.msg = fmt.Sprintf("Step %d: an opcode reported as invalid changed state other than PC and R (PC=%04x)", s+1, pre.PC)
				return o
			}
			if adv < 1 || adv > 4 {
				o.msg = fmt.Sprintf("Step %d: invalid opcode at %04x moved PC by %d", s+1, pre.PC, adv)
				return o
			}
			if cm != nil {
				if cm.writes != 0 || (cio != nil && cio.n != 0) {
					o.msg = fmt.Sprintf("Step %d: an opcode reported as invalid wrote memory or touched a port (PC=%04x)", s+1, pre.PC)
					return o
				}
				if int(adv) != len(cm.reads) {
					o.msg = fmt.Sprintf("Step %d: invalid opcode at %04x read %d instruction bytes but PC advanced by %d", s+1, pre.PC, len(cm.reads), adv)
					return o
				}
				for i, a := range cm.reads {
					if a != pre.PC+uint16(i) {
						o.msg = fmt.Sprintf("Step %d: invalid opcode at %04x read address %04x", s+1, pre.PC, a)
						return o
					}
				}
			}
			if pre.PC > 0xFFFB && pre.PC+adv < pre.PC {
				o.wrapPfx = true
			}
		}
		if int(pre.PC) >= memLimit(c) || int(pre.SP) >= memLimit(c) {
			o.shortAcc = true
		}
		if cpu.HALT && haltedAt < 0 {
			// a HALT instruction has been executed in this Step (the field starts out false)
			haltedAt = s + 1
			break
		}
	}
	if haltedAt >= 0 {
		// Run on a fresh copy must return, with the same state
		o.halted = true
		cpu2, _, _ := build(c, wrap)
		// interrupts are injected by Step index; Run cannot do that, so Run is checked when every request is
		// raised before the first Step (it may stay pending for ever: Run must still stop at the HALT)
		onlyAtStart := true
		for i := range c.Intr {
			if c.Intr[i].AtStep != 0 || (wrap && (c.Intr[i].AtAccess > 0 || c.Intr[i].Every)) {
				onlyAtStart = false // (nor can a request raised by the memory in the middle of a given Step be scheduled under Run)
			}
		}
		if onlyAtStart {
			for i := range c.Intr {
				cpu2.Interrupt = mkIntr(&c.Intr[i])
			}
			done := make(chan any, 1)
			go func() {
				defer func() { done <- recover() }()
				done <- cpu2.Run(context.Background())
			}()
			select {
			case r := <-done:
				if r != nil {
					if _, isErr := r.(error); !isErr {
						o.msg = fmt.Sprintf("Run panicked: %v", r)
						return o
					}
					o.msg = fmt.Sprintf("Run returned %v on a program that halts after %d Steps", r, haltedAt)
					return o
				}
				<-done
			case <-time.After(20 * time.Second):
				o.msg = fmt.Sprintf("Run did not return within 20 s on a program that halts after %d Steps", haltedAt)
				return o
			}
			if cpu2.States != cpu.States {
				o.msg = fmt.Sprintf("Run ended in a different state than %d Steps", haltedAt)
				return o
			}
			o.ranRun = true
			// Run with a context that is already cancelled: it still returns (with the context's error or, the program
			// being over so soon, with nil)
			cpu4, _, _ := build(c, wrap)
			for i := range c.Intr {
				cpu4.Interrupt = mkIntr(&c.Intr[i])
			}
			cctx, ccancel := context.WithCancel(context.Background())
			ccancel()
			done4 := make(chan any, 1)
			go func() {
				defer func() { done4 <- recover() }()
				done4 <- cpu4.Run(cctx)
			}()
			select {
			case r := <-done4:
				if _, isErr := r.(error); r != nil && !isErr {
					o.msg = fmt.Sprintf("Run with a cancelled context panicked: %v", r)
					return o
				}
				<-done4
			case <-time.After(20 * time.Second):
				o.msg = fmt.Sprintf("Run with an already cancelled context did not return within 20 s on a program that halts after %d Steps", haltedAt)
				return o
			}
			// the same with break points on the address of the HALT and on the start address, and Run called again
			// on the parked CPU: every call must return (with whatever error)
			cpu3, _, _ := build(c, wrap)
			for i := range c.Intr {
				cpu3.Interrupt = mkIntr(&c.Intr[i])
			}
			cpu3.BreakPoints = map[uint16]struct{}{cpu.PC: {}, c.PC: {}}
			for call := 1; call <= 3; call++ {
				done := make(chan any, 1)
				go func() {
					defer func() { done <- recover() }()
					done <- cpu3.Run(context.Background())
				}()
				select {
				case r := <-done:
					if _, isErr := r.(error); r != nil && !isErr {
						o.msg = fmt.Sprintf("Run (break points on the HALT and on the start address, call %d) panicked: %v", call, r)
						return o
					}
					<-done
				case <-time.After(20 * time.Second):
					o.msg = fmt.Sprintf("Run (break points on the HALT at %04x and on the start address, call %d) did not return within 20 s on a program that halts after %d Steps", cpu.PC, call, haltedAt)
					return o
				}
				// a further call is only known to return when the CPU is parked on a HALT that is in memory (not one a
				// mode-0 device supplied) and no request is left that could lead it elsewhere
				if cpu3.Interrupt != nil || cpu3.Memory.Get(cpu3.PC) != 0x76 {
					break
				}
				o.reRun = true
			}
		}
	}
	return o
}

func memLimit(c *totalCase) int {
	if c.MemKind == 1 {
		return c.MemLen
	}
	return 65536
}

// ---------------------------------------------------------------------------
// decoding a byte string into a case (shared by rapid and the native fuzzer)

type reader struct {
	b []byte
	i int
}

func (r *reader) u8() uint8 {
	if r.i >= len(r.b) {
		return 0
	}
	v := r.b[r.i]
	r.i++
	return v
}
func (r *reader) u16() uint16 { return uint16(r.u8()) | uint16(r.u8())<<8 }

func edgeLen(sel uint8, raw uint16, max int, around int) int {
	switch sel & 7 {
	case 0:
		return 0
	case 1:
		return 1
	case 2:
		return max
	case 3:
		return max - 1
	case 4: // just around an address the program uses
		return around
	case 5:
		return around + 1
	}
	return int(raw) % (max + 1)
}

func decode(data []byte) totalCase {
	r := &reader{b: data}
	var c totalCase
	c.AF, c.BC, c.DE, c.HL = r.u16(), r.u16(), r.u16(), r.u16()
	c.IX, c.IY = r.u16(), r.u16()
	flags := r.u8()
	c.IFF1, c.IFF2 = flags&1 != 0, flags&2 != 0
	switch (flags >> 2) & 7 {
	case 0, 1, 2:
		c.IM = int(flags>>2) & 3
	case 3:
		c.IM = -1
	case 4:
		c.IM = 3
	case 5:
		c.IM = 1 << 30
	default:
		c.IM = int(int8(r.u8()))
	}
	pcSel := r.u8()
	switch pcSel & 7 {
	case 0:
		c.PC = 0xFFFF
	case 1:
		c.PC = 0xFFFE
	case 2:
		c.PC = 0xFFFD
	case 3:
		c.PC = 0xFFFC
	case 4:
		c.PC = 0x0000
	default:
		c.PC = r.u16()
	}
	spSel := r.u8()
	switch spSel & 7 {
	case 0:
		c.SP = 0x0000
	case 1:
		c.SP = 0x0001
	case 2:
		c.SP = 0xFFFF
	case 3:
		c.SP = c.PC + 2
	default:
		c.SP = r.u16()
	}
	c.IR = r.u16()
	c.MemKind = int(r.u8()) % 3
	c.MemLen = edgeLen(r.u8(), r.u16(), 65536, int(c.PC))
	c.IOKind = int(r.u8()) % 3
	c.IOLen = edgeLen(r.u8(), r.u16(), 256, int(uint8(c.BC)))
	c.Fill = int(r.u8())
	if c.Fill&3 == 0 {
		c.Fill = 0x76 // HALT everywhere: the program parks soon and Run is exercised
	}
	c.Steps = int(r.u8())%64 + 1
	ni := int(r.u8()) % 4
	for i := 0; i < ni; i++ {
		var ev intrEv
		ev.AtStep = int(r.u8()) % c.Steps
		if ev.AtStep&1 == 1 {
			ev.AtStep = 0
		}
		t := r.u8()
		switch t & 7 {
		case 0:
			ev.Type = 0
		case 1, 2, 3:
			ev.Type = 1
		case 4:
			ev.Type = -1
		case 5:
			ev.Type = 2
		default:
			ev.Type = int(int8(t))
		}
		if t>>4&3 == 3 {
			ev.AtAccess = 1 + int(t>>6)
		}
		if t>>4&15 == 6 {
			ev.Every = true
		}
		dl := int(r.u8()) % 10
		if dl == 9 {
			ev.Long = true
			dl = 3
		}
		if dl > 0 || t&8 != 0 {
			ev.Data = make([]int, dl)
			for j := 0; j < dl; j++ {
				ev.Data[j] = int(r.u8())
			}
		}
		c.Intr = append(c.Intr, ev)
	}
	nt := int(r.u8()) % 17
	for i := 0; i < nt; i++ {
		c.Tail = append(c.Tail, int(r.u8()))
	}
	for r.i < len(r.b) && len(c.Code) < 64 {
		c.Code = append(c.Code, int(r.u8()))
	}
	return c
}

// ---------------------------------------------------------------------------

func writeViolation(c any, msg string) {
	stats.WriteViolation(env, stats.Violation{Property: "C12", Engine: "total", Case: c, Expect: "Step/Run return normally; invalid opcodes only consume their bytes", Got: msg})
	if strings.Contains(msg, "did not return within") {
		// a goroutine of this process is spinning inside the emulator for good: report and leave (no shrinking)
		fmt.Println("VIOLATION-CANDIDATE C12", msg)
		os.Exit(1)
	}
}

func replayFiles() []string {
	if f := os.Getenv("VERIF_REPLAY_FILE"); f != "" {
		return []string{f}
	}
	dir := os.Getenv("VERIF_REPLAY_DIR")
	if dir == "" {
		return nil
	}
	m, _ := filepath.Glob(filepath.Join(dir, "C12", "*.json"))
	sort.Strings(m)
	return m
}

func TestReplay(t *testing.T) {
	n := 0
	for _, f := range replayFiles() {
		b, err := os.ReadFile(f)
		if err != nil {
			t.Errorf("HARNESS: %v", err)
			continue
		}
		var d struct {
			Case json.RawMessage `json:"case"`
		}
		var c totalCase
		if err := json.Unmarshal(b, &d); err != nil {
			t.Errorf("HARNESS: %s: %v", f, err)
			continue
		}
		if err := json.Unmarshal(d.Case, &c); err != nil {
			t.Errorf("HARNESS: %s: %v", f, err)
			continue
		}
		n++
		if o := runTotal(&c); o.msg != "" {
			fmt.Printf("REPLAY-FAIL property=C12 file=%s %s\n", f, o.msg)
			t.Fail()
		}
	}
	fmt.Printf("REPLAYED %d\n", n)
}

func account(col *stats.Collector, c *totalCase, o *totalOutcome, h uint64) {
	col.Eval(1)
	nt := false
	if o.invalid > 0 {
		col.Label("executes-invalid-encoding")
		nt = true
	}
	if o.wrapPfx {
		col.Label("invalid-prefix-sequence-wraps-ffff")
		nt = true
	}
	if o.shortAcc {
		col.Label("pc-or-sp-beyond-short-memory")
		nt = true
	}
	if o.intr > 0 {
		col.Label("with-interrupt")
		nt = true
	}
	if o.byDevice > 0 {
		col.Label("request-raised-by-memory-during-step")
	}
	if o.reRun {
		col.Label("Run-again-on-a-HALT-with-break-point")
	}
	if o.ranRun {
		col.Label("halts->Run-checked")
		if o.intr > 0 {
			col.Label("halts-with-request-raised-before-Run")
		}
	}
	col.Label(fmt.Sprintf("mem-kind:%d", c.MemKind))
	col.Label(fmt.Sprintf("io-kind:%d", c.IOKind))
	if c.IM < 0 || c.IM > 2 {
		col.Label("im-outside-0..2")
	}
	if nt {
		col.Distinct(h)
		if col.WantSample(h) {
			col.Sample(h, *c)
		}
	}
}

// seedCorpus: hostile constants (also the starting corpus of the native fuzzer).
func seedCorpus() [][]byte {
	hdr := func(pcSel, memKind, memSel, ioKind, ioSel, steps, nIntr byte, rest ...byte) []byte {
		b := make([]byte, 12) // AF BC DE HL IX IY
		b = append(b, 0x01)   // flags: IFF1, IM 0
		b = append(b, pcSel)
		if pcSel&7 >= 5 {
			b = append(b, 0x00, 0x01)
		}
		b = append(b, 0x02)       // SP = 0xFFFF
		b = append(b, 0x00, 0x00) // IR
		b = append(b, memKind, memSel, 0x10, 0x00, ioKind, ioSel, 0x00, 0x00, 0x00, steps, nIntr)
		return append(b, rest...)
	}
	var out [][]byte
	rep := func(x byte, n int) []byte {
		b := make([]byte, n)
		for i := range b {
			b[i] = x
		}
		return b
	}
	out = append(out, hdr(5, 0, 6, 0, 0, 63, 0, append([]byte{0}, rep(0xDD, 40)...)...))
	out = append(out, hdr(5, 0, 6, 0, 0, 63, 0, append([]byte{0}, rep(0xFD, 40)...)...))
	out = append(out, hdr(1, 0, 6, 0, 0, 8, 0, 0, 0xDD, 0xCB, 0x01, 0xFF))
	out = append(out, hdr(0, 1, 4, 1, 4, 8, 0, 0, 0xED, 0xFF, 0xED, 0xB0))
	out = append(out, hdr(5, 1, 1, 1, 0, 8, 0, 0, 0xED, 0xB0))
	out = append(out, hdr(0, 2, 6, 2, 6, 8, 1, 0, 1, 3, 0xCD, 0x34, 0x12, 0, 0x00))
	out = append(out, hdr(0, 0, 6, 0, 0, 8, 1, 0, 2, 9, 0xC7, 0xC7, 0xC7, 0, 0x76))
	out = append(out, hdr(4, 1, 0, 0, 0, 8, 1, 0, 0, 0, 0, 0x76))
	return out
}

func TestC12(t *testing.T) {
	col := stats.New("C12")
	col.Sub = "total"
	defer func() {
		if err := col.Write(env); err != nil {
			t.Errorf("HARNESS: %v", err)
		}
	}()
	col.Rule = "deterministic prefix sweep (every byte after CB, ED, DD, FD, DD CB d, FD CB d x memory kind {64 KiB, short DumbMemory, MapMemory} x IO kind {nil, short DumbIO, device} x PC in {0x0100, 0xFFFC..0xFFFF}), " +
		"acknowledge sweep (IM in {0,1,2,3,-1,255} x first request {NMI, maskable with no / vector / RST / CALL data} x second request raised by the memory itself at its 1st..4th access of the acknowledging Step x PC {0x0100, 0xFFFF} x IFF1), hostile seed corpus, then rapid-generated byte strings decoded into (registers, any IM, PC/SP anywhere, memory kind and length biased to the addresses in use +-1, IO kind and length, program bytes at PC and at 0xFFF0.., " +
		"interrupt schedule with any Type and data of 0..8 or 65537 bytes, a quarter of the requests raised by the memory during a Step instead of between Steps); up to 64 Steps under recover; oracle = no panic, an opcode logged as invalid changes only PC and R, reads only its own bytes and advances PC by exactly that many, " +
		"a program seen to halt makes Run return with the same state, return under an already cancelled context, and return from each of up to three calls when break points sit on the HALT and on the start address (further calls only while the CPU is parked on a HALT in memory with no request left); non-trivial = executes an invalid encoding, a prefix sequence cut at 0xFFFF, PC/SP beyond a short memory, or an interrupt; distinct by hash(bytes)"
	// prefix sweep
	for _, pfx := range [][]int{{0xCB}, {0xED}, {0xDD}, {0xFD}, {0xDD, 0xCB, 0x05}, {0xFD, 0xCB, 0xFB}} {
		for op := 0; op < 256; op++ {
			for mk := 0; mk < 3; mk++ {
				for ik := 0; ik < 3; ik++ {
					for _, pc := range []uint16{0x0100, 0xFFFC, 0xFFFD, 0xFFFE, 0xFFFF} {
						c := totalCase{PC: pc, SP: 0x8000, HL: 0x4000, BC: 0x0203, IX: 0x5000, IY: 0x6000, MemKind: mk, MemLen: 0x4002, IOKind: ik, IOLen: 3, Steps: 3,
							Code: append(append([]int{}, pfx...), op, 0x12, 0x34)}
						o := runTotal(&c)
						if o.msg != "" {
							writeViolation(c, o.msg)
							t.Fatalf("VIOLATION-CANDIDATE C12 %s", o.msg)
						}
						account(col, &c, &o, stats.Hash(uint64(len(pfx)), uint64(pfx[0]), uint64(op), uint64(mk), uint64(ik), uint64(pc)))
					}
				}
			}
		}
	}
	col.Label("prefix-sweep-complete")
	// acknowledge sweep: while a request is being acknowledged (or refused), the memory raises another one at its
	// 1st..4th access of that Step
	for _, im := range []int{0, 1, 2, 3, -1, 255} {
		for fi, first := range []intrEv{{Type: 0}, {Type: 1}, {Type: 1, Data: []int{0x10}}, {Type: 1, Data: []int{0xC7}}, {Type: 1, Data: []int{0xCD, 0x00, 0x20}}} {
			for si, second := range []intrEv{{Type: 0}, {Type: 1}, {Type: 1, Data: []int{}}, {Type: 1, Data: []int{0xFF}}, {Type: 7}} {
				for at := 1; at <= 4; at++ {
					for _, pc := range []uint16{0x0100, 0xFFFF} {
						for iff := 0; iff < 2; iff++ {
							second.AtAccess = at
							c := totalCase{PC: pc, SP: 0x8000, IR: 0x4000, IM: im, IFF1: iff == 1, MemKind: 0, IOKind: 2, Steps: 4, Fill: 0x00, Intr: []intrEv{first, second}}
							o := runTotal(&c)
							if o.msg != "" {
								writeViolation(c, o.msg)
								t.Fatalf("VIOLATION-CANDIDATE C12 %s", o.msg)
							}
							account(col, &c, &o, stats.Hash(0xAC, uint64(im+1), uint64(fi), uint64(si), uint64(at), uint64(pc), uint64(iff)))
						}
					}
				}
			}
		}
	}
	// the same with a device that raises its request afresh at every memory access (NMI, maskable with and without data)
	for _, im := range []int{0, 1, 2} {
		for si, storm := range []intrEv{{Type: 0, Every: true}, {Type: 1, Every: true}, {Type: 1, Data: []int{0xFF}, Every: true}, {Type: 1, Data: []int{0x10}, Every: true}} {
			for iff := 0; iff < 2; iff++ {
				c := totalCase{PC: 0x0100, SP: 0x8000, IR: 0x4000, IM: im, IFF1: iff == 1, MemKind: 0, IOKind: 2, Steps: 12, Fill: 0xFB, Intr: []intrEv{storm}}
				o := runTotal(&c)
				if o.msg != "" {
					writeViolation(c, o.msg)
					t.Fatalf("VIOLATION-CANDIDATE C12 %s", o.msg)
				}
				account(col, &c, &o, stats.Hash(0xAD, uint64(im), uint64(si), uint64(iff)))
			}
		}
	}
	col.Label("acknowledge-sweep-complete")
	for i, s := range seedCorpus() {
		c := decode(s)
		o := runTotal(&c)
		if o.msg != "" {
			writeViolation(c, o.msg)
			t.Fatalf("VIOLATION-CANDIDATE C12 seed %d: %s", i, o.msg)
		}
		account(col, &c, &o, stats.Hash(0xC0, uint64(i)))
	}
	rapid.Check(t, func(t *rapid.T) {
		var data []byte
		if rapid.IntRange(0, 3).Draw(t, "mutate-seed") == 0 {
			seeds := seedCorpus()
			data = append([]byte(nil), seeds[rapid.IntRange(0, len(seeds)-1).Draw(t, "seed")]...)
			n := rapid.IntRange(1, 6).Draw(t, "nmut")
			for i := 0; i < n; i++ {
				data[rapid.IntRange(0, len(data)-1).Draw(t, "pos")] = rapid.Byte().Draw(t, "byte")
			}
		} else {
			data = rapid.SliceOfN(rapid.Byte(), 30, 120).Draw(t, "bytes")
		}
		c := decode(data)
		o := runTotal(&c)
		if o.msg != "" {
			writeViolation(c, o.msg)
			t.Fatalf("VIOLATION-CANDIDATE C12 %s", o.msg)
		}
		h := uint64(len(data))
		for _, b := range data {
			h = stats.Hash(h, uint64(b))
		}
		account(col, &c, &o, h)
	})
}

// FuzzTotal is the native coverage-guided target of the thorough tier.
func FuzzTotal(f *testing.F) {
	for _, s := range seedCorpus() {
		f.Add(s)
	}
	f.Fuzz(func(t *testing.T, data []byte) {
		c := decode(data)
		if o := runTotal(&c); o.msg != "" {
			if env.OutDir != "" {
				writeViolation(c, o.msg)
			}
			t.Fatalf("VIOLATION-CANDIDATE C12 %s", o.msg)
		}
	})
}
