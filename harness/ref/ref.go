package ref

// State is the complete architectural state the properties talk about.
type State struct {
	A, F, B, C, D, E, H, L         uint8
	A_, F_, B_, C_, D_, E_, H_, L_ uint8 // alternate set
	IX, IY, SP, PC                 uint16
	I, R                           uint8
	IFF1, IFF2                     bool
	IM                             int
	Halt                           bool // host-visible sticky HALT indication
}

// Bus is what the model talks to. Every access of the modelled instruction
// goes through it exactly once, so a recording bus yields the access log.
type Bus interface {
	Read(addr uint16) uint8
	Write(addr uint16, v uint8)
	In(port uint8) uint8
	Out(port, v uint8)
}

// Info describes the executed instruction and how strictly its outcome is
// specified (DESIGN.md 4.2).
type Info struct {
	Implemented bool // encoding is in the table of encodings the pinned emulator implements
	Documented  bool // ... and is a documented Z80 instruction
	Class       string
	Len         int   // instruction-stream bytes consumed
	M1          int   // opcode fetches (R increments)
	FMask       uint8 // F bits on which all Z80 implementations agree (compare these)
	RAlt        bool  // DDCB/FDCB: R may have advanced by one more
	IFF1Free    bool  // RETI: IFF1 either kept or := IFF2
	RetN, RetI  int   // handler notifications due
	Repeat      bool  // block instruction left PC on itself
	IsEI        bool
	IsHalt      bool
	Prefix      int  // 0 none, 1 CB, 2 ED, 3 DD, 4 FD, 5 DDCB, 6 FDCB
	UsesIndex   bool // reads or writes the index register selected by the prefix
	Taken       int  // conditional control transfer: 1 taken, 2 not taken, 0 n/a
	// RLowFree: interrupt acknowledge by push (NMI, IM 1, IM 2): the low seven bits of R may or may not
	// count the acknowledge cycle; bit 7 and I must be kept
	RLowFree bool
	// Optional: an undocumented encoding the pinned tree does not support. A tree may consume it as an unsupported
	// opcode (recognised by what the Step does, with or without a log line) or execute it as the Z80 does.
	Optional bool
}

const (
	PfxNone = iota
	PfxCB
	PfxED
	PfxDD
	PfxFD
	PfxDDCB
	PfxFDCB
)

type mach struct {
	s    *State
	b    Bus
	idx  int // 0 HL, 1 IX, 2 IY
	in   *Info
	data []uint8 // mode-0 interrupt: instruction bytes come from here, PC untouched
	dpos int
	// dataAdvance (known finding im0-executes-at-pc without its overlay facets): every fetch from data advances PC
	// as a fetch from memory would; once the data is used up the rest comes from memory at PC
	dataAdvance bool
}

func (m *mach) fetch() uint8 {
	m.in.Len++
	if m.data != nil {
		var v uint8
		if m.dpos < len(m.data) {
			v = m.data[m.dpos]
		} else if m.dataAdvance {
			v = m.b.Read(m.s.PC)
		}
		m.dpos++
		if m.dataAdvance {
			m.s.PC++
		}
		return v
	}
	v := m.b.Read(m.s.PC)
	m.s.PC++
	return v
}

func (m *mach) fetchM1() uint8 {
	v := m.fetch()
	m.in.M1++
	m.s.R = m.s.R&0x80 | (m.s.R+1)&0x7f
	return v
}

func (m *mach) fetch16() uint16 {
	lo := m.fetch()
	hi := m.fetch()
	return uint16(hi)<<8 | uint16(lo)
}

func (m *mach) read16(a uint16) uint16 {
	lo := m.b.Read(a)
	hi := m.b.Read(a + 1)
	return uint16(hi)<<8 | uint16(lo)
}

func (m *mach) write16(a uint16, v uint16) {
	m.b.Write(a, uint8(v))
	m.b.Write(a+1, uint8(v>>8))
}

func (m *mach) push(v uint16) {
	m.s.SP--
	m.b.Write(m.s.SP, uint8(v>>8))
	m.s.SP--
	m.b.Write(m.s.SP, uint8(v))
}

func (m *mach) pop() uint16 {
	lo := m.b.Read(m.s.SP)
	m.s.SP++
	hi := m.b.Read(m.s.SP)
	m.s.SP++
	return uint16(hi)<<8 | uint16(lo)
}

func (m *mach) hl() uint16 { return uint16(m.s.H)<<8 | uint16(m.s.L) }
func (m *mach) setHL(v uint16) {
	m.s.H, m.s.L = uint8(v>>8), uint8(v)
}
func (m *mach) bc() uint16 { return uint16(m.s.B)<<8 | uint16(m.s.C) }
func (m *mach) setBC(v uint16) {
	m.s.B, m.s.C = uint8(v>>8), uint8(v)
}
func (m *mach) de() uint16 { return uint16(m.s.D)<<8 | uint16(m.s.E) }
func (m *mach) setDE(v uint16) {
	m.s.D, m.s.E = uint8(v>>8), uint8(v)
}

// xy: the 16-bit register that stands for HL under the current prefix.
func (m *mach) xy() uint16 {
	switch m.idx {
	case 1:
		m.in.UsesIndex = true
		return m.s.IX
	case 2:
		m.in.UsesIndex = true
		return m.s.IY
	}
	return m.hl()
}

func (m *mach) setXY(v uint16) {
	switch m.idx {
	case 1:
		m.in.UsesIndex = true
		m.s.IX = v
	case 2:
		m.in.UsesIndex = true
		m.s.IY = v
	default:
		m.setHL(v)
	}
}

// rp[p] = BC DE HL SP with HL substituted by the prefix.
func (m *mach) rp(p int) uint16 {
	switch p {
	case 0:
		return m.bc()
	case 1:
		return m.de()
	case 2:
		return m.xy()
	}
	return m.s.SP
}

func (m *mach) setRP(p int, v uint16) {
	switch p {
	case 0:
		m.setBC(v)
	case 1:
		m.setDE(v)
	case 2:
		m.setXY(v)
	default:
		m.s.SP = v
	}
}

// plain 8-bit register r[i] (i != 6), no prefix substitution
func (m *mach) r8plain(i int) uint8 {
	switch i {
	case 0:
		return m.s.B
	case 1:
		return m.s.C
	case 2:
		return m.s.D
	case 3:
		return m.s.E
	case 4:
		return m.s.H
	case 5:
		return m.s.L
	}
	return m.s.A
}

func (m *mach) setR8plain(i int, v uint8) {
	switch i {
	case 0:
		m.s.B = v
	case 1:
		m.s.C = v
	case 2:
		m.s.D = v
	case 3:
		m.s.E = v
	case 4:
		m.s.H = v
	case 5:
		m.s.L = v
	default:
		m.s.A = v
	}
}

// r8 with H/L -> IXH/IXL substitution under a prefix
func (m *mach) r8(i int) uint8 {
	if m.idx != 0 && (i == 4 || i == 5) {
		v := m.xy()
		if i == 4 {
			return uint8(v >> 8)
		}
		return uint8(v)
	}
	return m.r8plain(i)
}

func (m *mach) setR8(i int, v uint8) {
	if m.idx != 0 && (i == 4 || i == 5) {
		w := m.xy()
		if i == 4 {
			w = uint16(v)<<8 | w&0xff
		} else {
			w = w&0xff00 | uint16(v)
		}
		m.setXY(w)
		return
	}
	m.setR8plain(i, v)
}

// ea returns the effective address of the (HL) operand: HL, or IX/IY+d with d
// fetched from the instruction stream now.
func (m *mach) ea() uint16 {
	if m.idx == 0 {
		return m.hl()
	}
	d := m.fetch()
	return m.xy() + uint16(int16(int8(d)))
}

const allFlags uint8 = 0xff

// Step executes one instruction (no interrupt handling) and returns its Info.
func Step(s *State, b Bus) Info {
	in := Info{FMask: allFlags, Implemented: true, Documented: true}
	m := &mach{s: s, b: b, in: &in}
	m.exec()
	return in
}

func (m *mach) exec() {
	op := m.fetchM1()
	switch op {
	case 0xCB:
		m.in.Prefix = PfxCB
		m.execCB()
		return
	case 0xED:
		m.in.Prefix = PfxED
		m.execED()
		return
	case 0xDD, 0xFD:
		if op == 0xDD {
			m.idx, m.in.Prefix = 1, PfxDD
		} else {
			m.idx, m.in.Prefix = 2, PfxFD
		}
		op2 := m.fetchM1()
		if op2 == 0xCB {
			m.in.Prefix += 2
			m.execXYCB()
			return
		}
		doc, ok := ddTable[op2]
		if !ok {
			m.in.Implemented = false
			return
		}
		m.in.Documented = doc
		m.main(op2)
		return
	}
	m.main(op)
}

// ddTable: second bytes implemented after DD / FD (value: documented?).
var ddTable = func() map[uint8]bool {
	t := map[uint8]bool{}
	for _, o := range []uint8{0x09, 0x19, 0x29, 0x39, 0x21, 0x22, 0x23, 0x2A, 0x2B, 0x34, 0x35, 0x36, 0xE1, 0xE3, 0xE5, 0xE9, 0xF9} {
		t[o] = true
	}
	for _, o := range []uint8{0x24, 0x25, 0x26, 0x2C, 0x2D, 0x2E} {
		t[o] = false
	}
	for o := 0x40; o <= 0x7F; o++ {
		if o == 0x76 {
			continue
		}
		y, z := (o>>3)&7, o&7
		t[uint8(o)] = (y == 6) != (z == 6) // memory forms are documented, everything else is IXH/IXL or a mirror
	}
	for o := 0x80; o <= 0xBF; o++ {
		t[uint8(o)] = o&7 == 6
	}
	return t
}()

func (m *mach) main(op uint8) {
	s := m.s
	x, y, z := int(op>>6), int(op>>3)&7, int(op)&7
	p, q := y>>1, y&1
	switch x {
	case 0:
		switch z {
		case 0:
			switch y {
			case 0:
				m.in.Class = "NOP"
			case 1:
				m.in.Class = "EX AF,AF'"
				s.A, s.A_ = s.A_, s.A
				s.F, s.F_ = s.F_, s.F
			case 2:
				m.in.Class = "DJNZ"
				d := m.fetch()
				s.B--
				if s.B != 0 {
					s.PC += uint16(int16(int8(d)))
					m.in.Taken = 1
				} else {
					m.in.Taken = 2
				}
			case 3:
				m.in.Class = "JR"
				d := m.fetch()
				s.PC += uint16(int16(int8(d)))
			default:
				m.in.Class = "JR cc"
				d := m.fetch()
				if Cond(y-4, s.F) {
					s.PC += uint16(int16(int8(d)))
					m.in.Taken = 1
				} else {
					m.in.Taken = 2
				}
			}
		case 1:
			if q == 0 {
				m.in.Class = "LD rp,nn"
				m.setRP(p, m.fetch16())
			} else {
				m.in.Class = "ADD HL,rp"
				r, f := Add16(m.xy(), m.rp(p), s.F)
				m.setXY(r)
				s.F = f
			}
		case 2:
			switch y {
			case 0:
				m.in.Class = "LD (BC),A"
				m.b.Write(m.bc(), s.A)
			case 1:
				m.in.Class = "LD A,(BC)"
				s.A = m.b.Read(m.bc())
			case 2:
				m.in.Class = "LD (DE),A"
				m.b.Write(m.de(), s.A)
			case 3:
				m.in.Class = "LD A,(DE)"
				s.A = m.b.Read(m.de())
			case 4:
				m.in.Class = "LD (nn),HL"
				m.write16(m.fetch16(), m.xy())
			case 5:
				m.in.Class = "LD HL,(nn)"
				m.setXY(m.read16(m.fetch16()))
			case 6:
				m.in.Class = "LD (nn),A"
				m.b.Write(m.fetch16(), s.A)
			case 7:
				m.in.Class = "LD A,(nn)"
				s.A = m.b.Read(m.fetch16())
			}
		case 3:
			if q == 0 {
				m.in.Class = "INC rp"
				m.setRP(p, m.rp(p)+1)
			} else {
				m.in.Class = "DEC rp"
				m.setRP(p, m.rp(p)-1)
			}
		case 4, 5:
			if z == 4 {
				m.in.Class = "INC r"
			} else {
				m.in.Class = "DEC r"
			}
			var v uint8
			var a uint16
			if y == 6 {
				m.in.Class += "(m)"
				a = m.ea()
				v = m.b.Read(a)
			} else {
				v = m.r8(y)
			}
			var r, f uint8
			if z == 4 {
				r, f = Inc8(v, s.F)
			} else {
				r, f = Dec8(v, s.F)
			}
			s.F = f
			if y == 6 {
				m.b.Write(a, r)
			} else {
				m.setR8(y, r)
			}
		case 6:
			if y == 6 {
				m.in.Class = "LD (m),n"
				a := m.ea()
				n := m.fetch()
				m.b.Write(a, n)
			} else {
				m.in.Class = "LD r,n"
				m.setR8(y, m.fetch())
			}
		case 7:
			switch y {
			case 0, 1, 2, 3:
				m.in.Class = "RxA"
				s.A, s.F = RotA(y, s.A, s.F)
				s.F |= 0 // H, N cleared by RotA
			case 4:
				m.in.Class = "DAA"
				s.A, s.F = Daa(s.A, s.F)
			case 5:
				m.in.Class = "CPL"
				s.A = ^s.A
				s.F = s.F&(FS|FZ|FPV|FC) | FH | FN | s.A&(F5|F3)
			case 6:
				m.in.Class = "SCF"
				s.F = s.F&(FS|FZ|FPV) | FC | s.A&(F5|F3) // 5/3 as on the chips zexall was measured on; not compared
				m.in.FMask &^= F5 | F3
			case 7:
				m.in.Class = "CCF"
				oldC := s.F & FC
				s.F = s.F&(FS|FZ|FPV) | b2f(oldC != 0, FH) | (oldC ^ FC) | s.A&(F5|F3)
				m.in.FMask &^= F5 | F3
			}
		}
	case 1:
		if y == 6 && z == 6 {
			m.in.Class = "HALT"
			m.in.IsHalt = true
			s.PC--
			s.Halt = true
			return
		}
		switch {
		case z == 6:
			m.in.Class = "LD r,(m)"
			a := m.ea()
			m.setR8plain(y, m.b.Read(a))
		case y == 6:
			m.in.Class = "LD (m),r"
			a := m.ea()
			m.b.Write(a, m.r8plain(z))
		default:
			m.in.Class = "LD r,r'"
			m.setR8(y, m.r8(z))
		}
	case 2:
		var v uint8
		if z == 6 {
			m.in.Class = "ALU A,(m)"
			v = m.b.Read(m.ea())
		} else {
			m.in.Class = "ALU A,r"
			v = m.r8(z)
		}
		s.A, s.F = Alu8(y, s.A, v, s.F)
	case 3:
		switch z {
		case 0:
			m.in.Class = "RET cc"
			if Cond(y, s.F) {
				s.PC = m.pop()
				m.in.Taken = 1
			} else {
				m.in.Taken = 2
			}
		case 1:
			if q == 0 {
				m.in.Class = "POP"
				v := m.pop()
				switch p {
				case 3:
					s.A, s.F = uint8(v>>8), uint8(v)
				default:
					m.setRP(p, v)
				}
			} else {
				switch p {
				case 0:
					m.in.Class = "RET"
					s.PC = m.pop()
				case 1:
					m.in.Class = "EXX"
					s.B, s.B_ = s.B_, s.B
					s.C, s.C_ = s.C_, s.C
					s.D, s.D_ = s.D_, s.D
					s.E, s.E_ = s.E_, s.E
					s.H, s.H_ = s.H_, s.H
					s.L, s.L_ = s.L_, s.L
				case 2:
					m.in.Class = "JP (HL)"
					s.PC = m.xy()
				case 3:
					m.in.Class = "LD SP,HL"
					s.SP = m.xy()
				}
			}
		case 2:
			m.in.Class = "JP cc"
			nn := m.fetch16()
			if Cond(y, s.F) {
				s.PC = nn
				m.in.Taken = 1
			} else {
				m.in.Taken = 2
			}
		case 3:
			switch y {
			case 0:
				m.in.Class = "JP"
				s.PC = m.fetch16()
			case 2:
				m.in.Class = "OUT (n),A"
				n := m.fetch()
				m.b.Out(n, s.A)
			case 3:
				m.in.Class = "IN A,(n)"
				n := m.fetch()
				s.A = m.b.In(n)
			case 4:
				m.in.Class = "EX (SP),HL"
				v := m.read16(s.SP)
				m.write16(s.SP, m.xy())
				m.setXY(v)
			case 5:
				m.in.Class = "EX DE,HL"
				s.D, s.H = s.H, s.D
				s.E, s.L = s.L, s.E
			case 6:
				m.in.Class = "DI"
				s.IFF1, s.IFF2 = false, false
			case 7:
				m.in.Class = "EI"
				m.in.IsEI = true
				s.IFF1, s.IFF2 = true, true
			}
		case 4:
			m.in.Class = "CALL cc"
			nn := m.fetch16()
			if Cond(y, s.F) {
				m.push(m.retAddr())
				s.PC = nn
				m.in.Taken = 1
			} else {
				m.in.Taken = 2
			}
		case 5:
			if q == 0 {
				m.in.Class = "PUSH"
				switch p {
				case 3:
					m.push(uint16(s.A)<<8 | uint16(s.F))
				default:
					m.push(m.rp(p))
				}
			} else { // p == 0 (DD/ED/FD never get here)
				m.in.Class = "CALL"
				nn := m.fetch16()
				m.push(m.retAddr())
				s.PC = nn
			}
		case 6:
			m.in.Class = "ALU A,n"
			s.A, s.F = Alu8(y, s.A, m.fetch(), s.F)
		case 7:
			m.in.Class = "RST"
			m.push(m.retAddr())
			s.PC = uint16(y) * 8
		}
	}
}

// retAddr is the address pushed by CALL/RST: the following instruction, or,
// for an instruction supplied by a mode-0 interrupt, the interrupted PC.
func (m *mach) retAddr() uint16 { return m.s.PC }

func (m *mach) execCB() {
	s := m.s
	op := m.fetchM1()
	x, y, z := int(op>>6), int(op>>3)&7, int(op)&7
	var v uint8
	var a uint16
	if z == 6 {
		a = m.hl()
		v = m.b.Read(a)
	} else {
		v = m.r8plain(z)
	}
	switch x {
	case 0:
		m.in.Class = "ROT r"
		if y == 6 {
			m.in.Documented = false // SLL
		}
		r, f := Rot(y, v, s.F)
		s.F = f
		if z == 6 {
			m.in.Class = "ROT (m)"
			m.b.Write(a, r)
		} else {
			m.setR8plain(z, r)
		}
	case 1:
		m.in.Class = "BIT r"
		s.F = bitFlags(y, v, s.F)
		if z == 6 {
			m.in.Class = "BIT (m)"
			m.in.FMask &^= F5 | F3
		}
	case 2, 3:
		var r uint8
		if x == 2 {
			m.in.Class = "RES"
			r = v &^ (1 << uint(y))
		} else {
			m.in.Class = "SET"
			r = v | 1<<uint(y)
		}
		if z == 6 {
			m.in.Class += " (m)"
			m.b.Write(a, r)
		} else {
			m.setR8plain(z, r)
		}
	}
}

// bitFlags: BIT y,v with bits 5/3 taken from v (valid for register operands).
func bitFlags(y int, v, fin uint8) uint8 {
	set := v&(1<<uint(y)) != 0
	f := fin&FC | FH | v&(F5|F3)
	if !set {
		f |= FZ | FPV
	}
	if y == 7 && set {
		f |= FS
	}
	return f
}

func (m *mach) execXYCB() {
	s := m.s
	d := m.fetch()
	op := m.fetch() // silicon: not an M1 cycle; the emulator counts one (either accepted)
	m.in.RAlt = true
	x, y, z := int(op>>6), int(op>>3)&7, int(op)&7
	if z != 6 {
		m.in.Implemented = false
		return
	}
	a := m.xy() + uint16(int16(int8(d)))
	v := m.b.Read(a)
	switch x {
	case 0:
		m.in.Class = "ROT (xy+d)"
		if y == 6 {
			m.in.Documented = false
		}
		r, f := Rot(y, v, s.F)
		s.F = f
		m.b.Write(a, r)
	case 1:
		m.in.Class = "BIT (xy+d)"
		s.F = bitFlags(y, v, s.F)
		m.in.FMask &^= F5 | F3
	case 2:
		m.in.Class = "RES (xy+d)"
		m.b.Write(a, v&^(1<<uint(y)))
	case 3:
		m.in.Class = "SET (xy+d)"
		m.b.Write(a, v|1<<uint(y))
	}
}

func (m *mach) execED() {
	s := m.s
	op := m.fetchM1()
	x, y, z := int(op>>6), int(op>>3)&7, int(op)&7
	p, q := y>>1, y&1
	switch {
	case x == 1:
		switch z {
		case 0:
			if y == 6 {
				break
			}
			m.in.Class = "IN r,(C)"
			v := m.b.In(s.C)
			m.setR8plain(y, v)
			s.F = s.F&FC | logicFlags(v, false)
			return
		case 1:
			if y == 6 {
				break
			}
			m.in.Class = "OUT (C),r"
			m.b.Out(s.C, m.r8plain(y))
			return
		case 2:
			if q == 0 {
				m.in.Class = "SBC HL,rp"
				r, f := Sbc16(m.hl(), m.rp(p), s.F)
				m.setHL(r)
				s.F = f
			} else {
				m.in.Class = "ADC HL,rp"
				r, f := Adc16(m.hl(), m.rp(p), s.F)
				m.setHL(r)
				s.F = f
			}
			return
		case 3:
			nn := m.fetch16()
			if q == 0 {
				m.in.Class = "LD (nn),rp"
				m.write16(nn, m.rp(p))
			} else {
				m.in.Class = "LD rp,(nn)"
				m.setRP(p, m.read16(nn))
			}
			return
		case 4:
			if y != 0 {
				break
			}
			m.in.Class = "NEG"
			s.A, s.F = Sub8(0, s.A, 0)
			return
		case 5:
			if y == 0 {
				m.in.Class = "RETN"
				m.in.RetN++
				s.PC = m.pop()
				s.IFF1 = s.IFF2
				return
			}
			if y == 1 {
				m.in.Class = "RETI"
				m.in.RetI++
				s.PC = m.pop()
				return
			}
			// ED 55 / 5D / 65 / 6D / 75 / 7D: undocumented mirrors; every one of them is RETN on a Z80 (only ED 4D is
			// RETI). A tree need not support them, but one that does must not take them for RETI.
			m.in.Class = "RETN"
			m.in.Documented = false
			m.in.Optional = true
			m.in.RetN++
			s.PC = m.pop()
			s.IFF1 = s.IFF2
			return
		case 6:
			switch y {
			case 0:
				m.in.Class = "IM"
				s.IM = 0
				return
			case 2:
				m.in.Class = "IM"
				s.IM = 1
				return
			case 3:
				m.in.Class = "IM"
				s.IM = 2
				return
			}
		case 7:
			switch y {
			case 0:
				m.in.Class = "LD I,A"
				s.I = s.A
				return
			case 1:
				m.in.Class = "LD R,A"
				s.R = s.A
				return
			case 2:
				m.in.Class = "LD A,I"
				s.A = s.I
				s.F = s.F&FC | szFlags(s.A) | s.A&(F5|F3) | b2f(s.IFF2, FPV)
				return
			case 3:
				m.in.Class = "LD A,R"
				s.A = s.R
				s.F = s.F&FC | szFlags(s.A) | s.A&(F5|F3) | b2f(s.IFF2, FPV)
				return
			case 4, 5:
				a := m.hl()
				v := m.b.Read(a)
				if y == 4 {
					m.in.Class = "RRD"
					m.b.Write(a, s.A<<4|v>>4)
					s.A = s.A&0xf0 | v&0x0f
				} else {
					m.in.Class = "RLD"
					m.b.Write(a, v<<4|s.A&0x0f)
					s.A = s.A&0xf0 | v>>4
				}
				s.F = s.F&FC | logicFlags(s.A, false)
				return
			}
		}
	case x == 2 && y >= 4 && z <= 3:
		m.block(y, z)
		return
	}
	m.in.Implemented = false
}

// block executes one element of bli[y][z]; y: 4 I, 5 D, 6 IR, 7 DR; z: 0 LD, 1 CP, 2 IN, 3 OUT.
func (m *mach) block(y, z int) {
	s := m.s
	var step uint16 = 1
	if y&1 == 1 {
		step = 0xffff
	}
	rep := y >= 6
	switch z {
	case 0:
		m.in.Class = "LDx"
		v := m.b.Read(m.hl())
		m.b.Write(m.de(), v)
		m.setHL(m.hl() + step)
		m.setDE(m.de() + step)
		m.setBC(m.bc() - 1)
		n := s.A + v
		s.F = s.F&(FS|FZ|FC) | b2f(m.bc() != 0, FPV) | n&F3 | (n<<4)&F5
		if rep && m.bc() != 0 {
			s.PC -= 2
			m.in.Repeat = true
			m.in.FMask &^= F5 | F3
		}
	case 1:
		m.in.Class = "CPx"
		v := m.b.Read(m.hl())
		r, f := Sub8(s.A, v, 0)
		m.setHL(m.hl() + step)
		m.setBC(m.bc() - 1)
		n := r
		if f&FH != 0 {
			n--
		}
		s.F = s.F&FC | f&(FS|FZ|FH) | FN | b2f(m.bc() != 0, FPV) | n&F3 | (n<<4)&F5
		if rep && m.bc() != 0 && r != 0 {
			s.PC -= 2
			m.in.Repeat = true
			m.in.FMask &^= F5 | F3
		}
	case 2, 3:
		var v uint8
		var k uint16
		if z == 2 {
			m.in.Class = "INx"
			v = m.b.In(s.C)
			m.b.Write(m.hl(), v)
			s.B--
			m.setHL(m.hl() + step)
			if step == 1 {
				k = uint16(v) + uint16(s.C+1)
			} else {
				k = uint16(v) + uint16(s.C-1)
			}
		} else {
			m.in.Class = "OUTx"
			v = m.b.Read(m.hl())
			s.B--
			m.b.Out(s.C, v)
			m.setHL(m.hl() + step)
			k = uint16(v) + uint16(s.L)
		}
		// Z is exact; N must be 1 when bit 7 of the byte is 1 (manual and silicon agree),
		// C must be kept when silicon keeps it too; S, H, P/V, 5, 3 are unspecified.
		mask := FZ
		f := s.F&FC | b2f(s.B == 0, FZ) | FN
		if v&0x80 != 0 {
			mask |= FN
		}
		silC := k > 255
		if silC == (s.F&FC != 0) {
			mask |= FC
		}
		s.F = f | s.F&^(FZ|FN|FC)
		m.in.FMask = mask
		if rep && s.B != 0 {
			s.PC -= 2
			m.in.Repeat = true
		}
	}
}
