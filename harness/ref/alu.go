// Package ref is an independent reference model of the Z80 instruction set,
// written from the Zilog manual and "The Undocumented Z80 Documented"
// (DESIGN.md appendix A). It shares no code shape with the emulator under
// test: decoding is algorithmic over bit fields and all flags are computed
// from bit-serial definitions.
package ref

// Flag bits.
const (
	FC  uint8 = 0x01
	FN  uint8 = 0x02
	FPV uint8 = 0x04
	F3  uint8 = 0x08
	FH  uint8 = 0x10
	F5  uint8 = 0x20
	FZ  uint8 = 0x40
	FS  uint8 = 0x80
)

func bit(v uint8, n uint) uint8 { return (v >> n) & 1 }

// Parity reports whether v has an even number of one bits (loop definition).
func Parity(v uint8) bool {
	n := 0
	for i := uint(0); i < 8; i++ {
		if v&(1<<i) != 0 {
			n++
		}
	}
	return n%2 == 0
}

// adder8 is a ripple-carry adder: returns the sum and the carries out of bit
// 3, into bit 7 and out of bit 7.
func adder8(a, b, cin uint8) (sum uint8, c3, c6, c7 uint8) {
	c := cin & 1
	for i := uint(0); i < 8; i++ {
		x, y := bit(a, i), bit(b, i)
		s := x ^ y ^ c
		c = (x & y) | (x & c) | (y & c)
		sum |= s << i
		switch i {
		case 3:
			c3 = c
		case 6:
			c6 = c
		case 7:
			c7 = c
		}
	}
	return
}

func szFlags(r uint8) uint8 {
	var f uint8
	if r&0x80 != 0 {
		f |= FS
	}
	if r == 0 {
		f |= FZ
	}
	return f
}

func b2f(c bool, f uint8) uint8 {
	if c {
		return f
	}
	return 0
}

// Add8 computes a + b + cin with the Z80 flags of ADD/ADC.
func Add8(a, b, cin uint8) (r, f uint8) {
	r, c3, c6, c7 := adder8(a, b, cin)
	f = szFlags(r) | (r & (F5 | F3))
	f |= b2f(c3 != 0, FH) | b2f(c6 != c7, FPV) | b2f(c7 != 0, FC)
	return
}

// Sub8 computes a - b - bin with the Z80 flags of SUB/SBC (two's complement
// addition of the inverted operand; borrows are inverted carries).
func Sub8(a, b, bin uint8) (r, f uint8) {
	r, c3, c6, c7 := adder8(a, ^b, (bin&1)^1)
	f = szFlags(r) | (r & (F5 | F3)) | FN
	f |= b2f(c3 == 0, FH) | b2f(c6 != c7, FPV) | b2f(c7 == 0, FC)
	return
}

// Cp8 is SUB without storing, bits 5/3 from the operand.
func Cp8(a, b uint8) (f uint8) {
	_, f = Sub8(a, b, 0)
	f = f&^(F5|F3) | b&(F5|F3)
	return
}

func logicFlags(r uint8, h bool) uint8 {
	return szFlags(r) | (r & (F5 | F3)) | b2f(h, FH) | b2f(Parity(r), FPV)
}

// Alu8 executes alu[y] (ADD ADC SUB SBC AND XOR OR CP) on a,b with incoming F;
// returns the new A and the new F.
func Alu8(y int, a, b, fin uint8) (uint8, uint8) {
	switch y {
	case 0:
		return Add8(a, b, 0)
	case 1:
		return Add8(a, b, fin&FC)
	case 2:
		return Sub8(a, b, 0)
	case 3:
		return Sub8(a, b, fin&FC)
	case 4:
		r := a & b
		return r, logicFlags(r, true)
	case 5:
		r := a ^ b
		return r, logicFlags(r, false)
	case 6:
		r := a | b
		return r, logicFlags(r, false)
	default:
		return a, Cp8(a, b)
	}
}

// Inc8 / Dec8: C is kept from fin.
func Inc8(v, fin uint8) (r, f uint8) {
	r, c3, c6, c7 := adder8(v, 1, 0)
	f = szFlags(r) | (r & (F5 | F3)) | b2f(c3 != 0, FH) | b2f(c6 != c7, FPV) | (fin & FC)
	return
}

func Dec8(v, fin uint8) (r, f uint8) {
	r, c3, c6, c7 := adder8(v, ^uint8(1), 1)
	f = szFlags(r) | (r & (F5 | F3)) | FN | b2f(c3 == 0, FH) | b2f(c6 != c7, FPV) | (fin & FC)
	return
}

// Rot executes rot[y] (RLC RRC RL RR SLA SRA SLL SRL) with the CB-table flags.
func Rot(y int, v, fin uint8) (r, f uint8) {
	var cout uint8
	cin := fin & FC
	switch y {
	case 0: // RLC
		cout = v >> 7
		r = v<<1 | cout
	case 1: // RRC
		cout = v & 1
		r = v>>1 | cout<<7
	case 2: // RL
		cout = v >> 7
		r = v<<1 | cin
	case 3: // RR
		cout = v & 1
		r = v>>1 | cin<<7
	case 4: // SLA
		cout = v >> 7
		r = v << 1
	case 5: // SRA
		cout = v & 1
		r = v>>1 | v&0x80
	case 6: // SLL
		cout = v >> 7
		r = v<<1 | 1
	default: // SRL
		cout = v & 1
		r = v >> 1
	}
	f = szFlags(r) | (r & (F5 | F3)) | b2f(Parity(r), FPV) | cout
	return
}

// RotA executes RLCA RRCA RLA RRA (y = 0..3): S, Z, P/V kept.
func RotA(y int, a, fin uint8) (r, f uint8) {
	r, rf := Rot(y, a, fin)
	f = fin&(FS|FZ|FPV) | r&(F5|F3) | rf&FC
	return
}

// Daa follows the table of Young, section 4.7.
func Daa(a, fin uint8) (r, f uint8) {
	c := fin&FC != 0
	h := fin&FH != 0
	n := fin&FN != 0
	hi, lo := a>>4, a&15
	var add uint8
	var cout bool
	switch {
	case !c && hi <= 9 && !h && lo <= 9:
		add, cout = 0x00, false
	case !c && hi <= 9 && h && lo <= 9:
		add, cout = 0x06, false
	case !c && hi <= 8 && lo >= 10:
		add, cout = 0x06, false
	case !c && hi >= 10 && !h && lo <= 9:
		add, cout = 0x60, true
	case c && !h && lo <= 9:
		add, cout = 0x60, true
	case c && h && lo <= 9:
		add, cout = 0x66, true
	case c && lo >= 10:
		add, cout = 0x66, true
	case !c && hi >= 9 && lo >= 10:
		add, cout = 0x66, true
	case !c && hi >= 10 && h && lo <= 9:
		add, cout = 0x66, true
	}
	var hout bool
	if n {
		r = a - add
		hout = h && lo < 6
	} else {
		r = a + add
		hout = lo > 9
	}
	f = szFlags(r) | r&(F5|F3) | b2f(hout, FH) | b2f(Parity(r), FPV) | fin&FN | b2f(cout, FC)
	return
}

// adder16 is the 16-bit ripple adder: carries out of bit 11, into 15, out of 15.
func adder16(a, b uint16, cin uint8) (sum uint16, c11, c14, c15 uint8) {
	c := uint16(cin & 1)
	for i := uint(0); i < 16; i++ {
		x, y := (a>>i)&1, (b>>i)&1
		s := x ^ y ^ c
		c = (x & y) | (x & c) | (y & c)
		sum |= s << i
		switch i {
		case 11:
			c11 = uint8(c)
		case 14:
			c14 = uint8(c)
		case 15:
			c15 = uint8(c)
		}
	}
	return
}

// Add16 is ADD HL,ss: S, Z, P/V kept.
func Add16(a, b uint16, fin uint8) (r uint16, f uint8) {
	r, c11, _, c15 := adder16(a, b, 0)
	f = fin&(FS|FZ|FPV) | uint8(r>>8)&(F5|F3) | b2f(c11 != 0, FH) | b2f(c15 != 0, FC)
	return
}

// Adc16 is ADC HL,ss.
func Adc16(a, b uint16, fin uint8) (r uint16, f uint8) {
	r, c11, c14, c15 := adder16(a, b, fin&FC)
	f = uint8(r>>8)&(FS|F5|F3) | b2f(r == 0, FZ) | b2f(c11 != 0, FH) | b2f(c14 != c15, FPV) | b2f(c15 != 0, FC)
	return
}

// Sbc16 is SBC HL,ss.
func Sbc16(a, b uint16, fin uint8) (r uint16, f uint8) {
	r, c11, c14, c15 := adder16(a, ^b, (fin&FC)^1)
	f = uint8(r>>8)&(FS|F5|F3) | b2f(r == 0, FZ) | b2f(c11 == 0, FH) | b2f(c14 != c15, FPV) | FN | b2f(c15 == 0, FC)
	return
}

// Cond evaluates cc[y] (NZ Z NC C PO PE P M) on F.
func Cond(y int, f uint8) bool {
	var set bool
	switch y >> 1 {
	case 0:
		set = f&FZ != 0
	case 1:
		set = f&FC != 0
	case 2:
		set = f&FPV != 0
	default:
		set = f&FS != 0
	}
	if y&1 == 0 {
		return !set
	}
	return set
}
