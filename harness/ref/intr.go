package ref

// Request is a pending interrupt request.
type Request struct {
	NMI  bool
	Data []uint8
}

// Quirks switch on, one at a time, the exact behaviour of a known finding
// (DESIGN.md 4.5). With all of them off the model is the Z80.
type Quirks struct {
	// Im0ExecutesAtPC: a mode-0 acceptance runs the supplied instruction as
	// if it were stored at PC: its own fetch advances PC (RST/CALL push
	// PC+len, other instructions leave PC+len), the bytes are visible to
	// data reads in [PC, PC+len-1] (compared without wraparound) and writes
	// into that range are dropped.
	Im0ExecutesAtPC bool
	// Im0NoOverlay (only with Im0ExecutesAtPC): the same root cause - the supplied instruction is fetched through PC -
	// without the side effects of the memory overlay: data reads and writes of the instruction go to the real memory
	// everywhere. A tree that has lost those side effects but still advances PC shows this facet of the finding.
	Im0NoOverlay bool
}

// overlay is the bus seen by a mode-0 instruction under Im0ExecutesAtPC.
type overlay struct {
	base       Bus
	start, end uint16
	data       []uint8
}

func (o *overlay) Read(a uint16) uint8 {
	if a < o.start || a > o.end {
		return o.base.Read(a)
	}
	return o.data[a-o.start]
}

func (o *overlay) Write(a uint16, v uint8) {
	if a >= o.start && a <= o.end {
		return
	}
	o.base.Write(a, v)
}
func (o *overlay) In(p uint8) uint8 { return o.base.In(p) }
func (o *overlay) Out(p, v uint8)   { o.base.Out(p, v) }

// Accept models the examination of a pending request at the start of a Step.
// It returns false when the request is refused (maskable with IFF1 clear): then
// nothing has changed and the caller executes the next program instruction.
func Accept(s *State, b Bus, req Request, q Quirks) (accepted bool, in Info) {
	in = Info{FMask: allFlags, Implemented: true, Documented: true, Class: "accept"}
	m := &mach{s: s, b: b, in: &in}
	if req.NMI {
		m.push(s.PC)
		s.PC = 0x0066
		s.IFF2 = s.IFF1
		s.IFF1 = false
		in.Class = "accept NMI"
		in.RLowFree = true
		return true, in
	}
	if !s.IFF1 {
		return false, in
	}
	iff2 := s.IFF2
	s.IFF1, s.IFF2 = false, false
	switch s.IM {
	case 1:
		in.Class = "accept IM1"
		in.RLowFree = true
		m.push(s.PC)
		s.PC = 0x0038
	case 2:
		in.Class = "accept IM2"
		in.RLowFree = true
		m.push(s.PC)
		var v uint8
		if len(req.Data) > 0 {
			v = req.Data[0]
		}
		s.PC = m.read16(uint16(s.I)<<8 | uint16(v&0xfe))
	case 0:
		in.Class = "accept IM0"
		r0 := s.R
		if q.Im0ExecutesAtPC {
			// the finding includes the order: the instruction runs with the flip-flops still set
			// (visible when the wrapped overlay lets a program instruction such as LD A,I run instead)
			s.IFF1, s.IFF2 = true, iff2
			if q.Im0NoOverlay {
				m.data, m.dataAdvance = req.Data, true
			} else {
				m.b = &overlay{base: b, start: s.PC, end: s.PC + uint16(len(req.Data)-1), data: req.Data}
			}
			m.exec()
		} else {
			m.data = req.Data
			m.exec()
		}
		// an instruction that touches the flip-flops itself is outside the domain; acceptance wins
		s.IFF1, s.IFF2 = false, false
		_ = r0
	}
	return true, in
}
