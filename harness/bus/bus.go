// Package bus provides the recording memory / port space used by both the
// emulator under test (z80.Memory, z80.IO) and the reference model (ref.Bus).
package bus

// Kind of access.
type Kind uint8

const (
	Read Kind = iota
	Write
	In
	Out
)

func (k Kind) String() string { return [...]string{"rd", "wr", "in", "out"}[k] }

// Access is one logged bus access.
type Access struct {
	K    Kind
	Addr uint16
	Val  uint8
}

// Rec is a 64 KiB memory plus 256 ports. Initial memory contents are a pure
// function of (Seed, address) or a constant fill, so two Recs reset with the
// same parameters are equal by construction and set-up costs nothing.
type Rec struct {
	seed   uint64
	ioseed uint64
	fill   int // -1: hash of (seed, addr); 0..255: constant
	iofill int
	val    [65536]uint8
	gen    [65536]uint32
	cur    uint32
	nIn    int
	Log    []Access
	NoLog  bool
	// Hook, when set, is called after every access with the running access
	// count (1-based); scripted devices use it to raise interrupts or cancel.
	Hook func(n int, a Access)
	n    int
	// undo journal (Begin / Rollback): lets a caller try alternative model
	// outcomes on the same bus
	dirty   []uint16 // cells written since Reset (each once)
	journal bool
	undo    []undoEntry
	mark    struct{ log, nIn, n int }
}

type undoEntry struct {
	addr uint16
	val  uint8
	gen  uint32
}

// Begin starts journalling writes so that Rollback can undo everything done
// since (memory cells, the log, the port-read counter).
func (r *Rec) Begin() {
	r.journal = true
	r.undo = r.undo[:0]
	r.mark.log, r.mark.nIn, r.mark.n = len(r.Log), r.nIn, r.n
}

// Rollback undoes all accesses since Begin.
func (r *Rec) Rollback() {
	for i := len(r.undo) - 1; i >= 0; i-- {
		u := r.undo[i]
		r.val[u.addr], r.gen[u.addr] = u.val, u.gen
	}
	r.undo = r.undo[:0]
	r.Log = r.Log[:r.mark.log]
	r.nIn, r.n = r.mark.nIn, r.mark.n
}

// End stops journalling.
func (r *Rec) End() { r.journal = false; r.undo = r.undo[:0] }

// New allocates a Rec.
func New() *Rec {
	r := &Rec{fill: -1, iofill: -1}
	r.cur = 1
	return r
}

// Reset forgets all writes and the log and installs new initial contents.
func (r *Rec) Reset(seed, ioseed uint64, fill, iofill int) {
	r.seed, r.ioseed, r.fill, r.iofill = seed, ioseed, fill, iofill
	r.cur++
	if r.cur == 0 {
		for i := range r.gen {
			r.gen[i] = 0
		}
		r.cur = 1
	}
	r.Log = r.Log[:0]
	r.dirty = r.dirty[:0]
	r.nIn = 0
	r.n = 0
	r.Hook = nil
	r.NoLog = false
	r.journal = false
	r.undo = r.undo[:0]
}

func mix(x uint64) uint64 {
	x += 0x9E3779B97F4A7C15
	x = (x ^ (x >> 30)) * 0xBF58476D1CE4E5B9
	x = (x ^ (x >> 27)) * 0x94D049BB133111EB
	return x ^ (x >> 31)
}

// Peek reads without logging.
func (r *Rec) Peek(a uint16) uint8 {
	if r.gen[a] == r.cur {
		return r.val[a]
	}
	if r.fill >= 0 {
		return uint8(r.fill)
	}
	return uint8(mix(r.seed ^ uint64(a)<<20))
}

// Poke writes without logging (test set-up).
func (r *Rec) Poke(a uint16, v uint8) {
	if r.journal {
		r.undo = append(r.undo, undoEntry{a, r.val[a], r.gen[a]})
	}
	if r.gen[a] != r.cur {
		r.dirty = append(r.dirty, a)
	}
	r.val[a] = v
	r.gen[a] = r.cur
}

func (r *Rec) note(a Access) {
	r.n++
	if !r.NoLog {
		r.Log = append(r.Log, a)
	}
	if r.Hook != nil {
		r.Hook(r.n, a)
	}
}

// Accesses returns the number of accesses since Reset.
func (r *Rec) Accesses() int { return r.n }

// Get implements z80.Memory.
func (r *Rec) Get(a uint16) uint8 {
	v := r.Peek(a)
	r.note(Access{Read, a, v})
	return v
}

// Set implements z80.Memory.
func (r *Rec) Set(a uint16, v uint8) {
	r.Poke(a, v)
	r.note(Access{Write, a, v})
}

// Read / Write implement ref.Bus.
func (r *Rec) Read(a uint16) uint8     { return r.Get(a) }
func (r *Rec) Write(a uint16, v uint8) { r.Set(a, v) }

// InValue is the byte the n-th port read (0-based) returns for a port.
func (r *Rec) InValue(port uint8, n int) uint8 {
	if r.iofill >= 0 {
		return uint8(r.iofill)
	}
	return uint8(mix(r.ioseed ^ uint64(port)<<8 ^ uint64(n)<<24))
}

// In implements z80.IO and ref.Bus: the returned byte depends on the port and
// on how many port reads came before, so a wrong port, a doubled or a skipped
// read changes what the program sees.
func (r *Rec) In(port uint8) uint8 {
	v := r.InValue(port, r.nIn)
	r.nIn++
	r.note(Access{In, uint16(port), v})
	return v
}

// Out implements z80.IO and ref.Bus.
func (r *Rec) Out(port, v uint8) {
	r.note(Access{Out, uint16(port), v})
}

// Equal reports whether two Recs hold the same memory contents at every
// address either of them has written (they share initial contents when reset
// alike).
func Equal(a, b *Rec) (bool, uint16) {
	for _, l := range [2][]Access{a.Log, b.Log} {
		for _, x := range l {
			if x.K == Write && a.Peek(x.Addr) != b.Peek(x.Addr) {
				return false, x.Addr
			}
		}
	}
	return true, 0
}

// Snapshot copies the written cells of r into dst (which must have been Reset
// with the same parameters).
func (r *Rec) CopyTo(dst *Rec) {
	dst.Reset(r.seed, r.ioseed, r.fill, r.iofill)
	for _, a := range r.dirty {
		if r.gen[a] == r.cur { // a rolled-back cell may be listed although it is clean again
			dst.Poke(a, r.val[a])
		}
	}
	dst.nIn = r.nIn
}

// EqualDirty compares two Recs that were reset alike at every address either
// of them has had written or poked since.
func EqualDirty(a, b *Rec) (bool, uint16) {
	for _, l := range [2][]uint16{a.dirty, b.dirty} {
		for _, x := range l {
			if a.Peek(x) != b.Peek(x) {
				return false, x
			}
		}
	}
	return true, 0
}

// EqualFull compares the complete 64 KiB image.
func EqualFull(a, b *Rec) (bool, uint16) {
	for i := 0; i < 65536; i++ {
		if a.Peek(uint16(i)) != b.Peek(uint16(i)) {
			return false, uint16(i)
		}
	}
	return true, 0
}
