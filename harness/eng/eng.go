// Package eng runs one Step of the emulator under test and of the reference
// model from the same pre-state on equal buses and classifies discrepancies
// (DESIGN.md 4.4).
package eng

import (
	"fmt"
	"sort"
	"strings"

	"github.com/koron-go/z80"
	"github.com/koron-go/z80/verifharness/bus"
	"github.com/koron-go/z80/verifharness/ref"
)

// ToCPU loads a model state into an emulator CPU.
func ToCPU(s *ref.State, c *z80.CPU) {
	c.AF.Hi, c.AF.Lo = s.A, s.F
	c.BC.Hi, c.BC.Lo = s.B, s.C
	c.DE.Hi, c.DE.Lo = s.D, s.E
	c.HL.Hi, c.HL.Lo = s.H, s.L
	c.Alternate.AF.Hi, c.Alternate.AF.Lo = s.A_, s.F_
	c.Alternate.BC.Hi, c.Alternate.BC.Lo = s.B_, s.C_
	c.Alternate.DE.Hi, c.Alternate.DE.Lo = s.D_, s.E_
	c.Alternate.HL.Hi, c.Alternate.HL.Lo = s.H_, s.L_
	c.IX, c.IY, c.SP, c.PC = s.IX, s.IY, s.SP, s.PC
	c.IR.Hi, c.IR.Lo = s.I, s.R
	c.IFF1, c.IFF2, c.IM = s.IFF1, s.IFF2, s.IM
	c.HALT = s.Halt
}

// FromCPU reads the emulator state back.
func FromCPU(c *z80.CPU) ref.State {
	return ref.State{
		A: c.AF.Hi, F: c.AF.Lo, B: c.BC.Hi, C: c.BC.Lo, D: c.DE.Hi, E: c.DE.Lo, H: c.HL.Hi, L: c.HL.Lo,
		A_: c.Alternate.AF.Hi, F_: c.Alternate.AF.Lo, B_: c.Alternate.BC.Hi, C_: c.Alternate.BC.Lo,
		D_: c.Alternate.DE.Hi, E_: c.Alternate.DE.Lo, H_: c.Alternate.HL.Hi, L_: c.Alternate.HL.Lo,
		IX: c.IX, IY: c.IY, SP: c.SP, PC: c.PC, I: c.IR.Hi, R: c.IR.Lo,
		IFF1: c.IFF1, IFF2: c.IFF2, IM: c.IM, Halt: c.HALT,
	}
}

// Discrepancy kinds.
const (
	KState   = "state"   // registers, alt set, IX/IY/SP/PC, IFF, IM, HALT       -> C01
	KFlags   = "flags"   // F under the compare mask                              -> C01
	KMemImg  = "memimg"  // final memory image                                    -> C01
	KPortOut = "portout" // bytes sent to ports                                   -> C01
	KAccess  = "access"  // reads / writes / per-address order / port log         -> C05
	KRefresh = "refresh" // R, I                                                  -> C14
	KPanic   = "panic"   // Step panicked                                         -> all
	KInvalid = "invalid" // documented encoding logged as invalid                 -> C01
	KIff     = "iff"     // IFF1, IFF2, IM                                        -> C01, C06
	KIntr    = "intr"    // pending request, RETN/RETI handler notifications      -> C06
)

// Disc is one discrepancy.
type Disc struct {
	Kind string
	Msg  string
}

// StateDiff lists the fields in which two states differ, ignoring F (under
// mask), R and I which are reported separately.
func StateDiff(got, want *ref.State, pre *ref.State, in *ref.Info) (ds []Disc) {
	g, w := *got, *want
	if (g.F^w.F)&in.FMask != 0 {
		ds = append(ds, Disc{KFlags, fmt.Sprintf("F=%02x want %02x (mask %02x)", g.F, w.F, in.FMask)})
	}
	if in.RLowFree {
		// acknowledge cycle: 0 or 1 refresh increments, bit 7 kept
		if g.R != w.R && g.R != (w.R&0x80|(w.R+1)&0x7f) {
			ds = append(ds, Disc{KRefresh, fmt.Sprintf("R=%02x after an interrupt acknowledge from R=%02x", g.R, w.R)})
		}
	} else if g.R != w.R {
		ok := false
		if in.RAlt {
			alt := w.R&0x80 | (w.R+1)&0x7f
			ok = g.R == alt
		}
		if !ok {
			ds = append(ds, Disc{KRefresh, fmt.Sprintf("R=%02x want %02x", g.R, w.R)})
		}
	}
	if g.I != w.I {
		ds = append(ds, Disc{KRefresh, fmt.Sprintf("I=%02x want %02x", g.I, w.I)})
	}
	if in.IFF1Free && pre != nil && g.IFF1 == pre.IFF2 {
		w.IFF1 = g.IFF1
	}
	g.F, w.F, g.R, w.R, g.I, w.I = 0, 0, 0, 0, 0, 0
	if g.IFF1 != w.IFF1 || g.IFF2 != w.IFF2 || g.IM != w.IM {
		ds = append(ds, Disc{KIff, describeDiff(&ref.State{IFF1: g.IFF1, IFF2: g.IFF2, IM: g.IM}, &ref.State{IFF1: w.IFF1, IFF2: w.IFF2, IM: w.IM})})
		g.IFF1, g.IFF2, g.IM = w.IFF1, w.IFF2, w.IM
	}
	if g != w {
		ds = append(ds, Disc{KState, describeDiff(&g, &w)})
	}
	return
}

func describeDiff(g, w *ref.State) string {
	var sb strings.Builder
	f := func(name string, a, b any) {
		if a != b {
			fmt.Fprintf(&sb, "%s=%x want %x; ", name, a, b)
		}
	}
	f("A", g.A, w.A)
	f("B", g.B, w.B)
	f("C", g.C, w.C)
	f("D", g.D, w.D)
	f("E", g.E, w.E)
	f("H", g.H, w.H)
	f("L", g.L, w.L)
	f("A'", g.A_, w.A_)
	f("F'", g.F_, w.F_)
	f("B'", g.B_, w.B_)
	f("C'", g.C_, w.C_)
	f("D'", g.D_, w.D_)
	f("E'", g.E_, w.E_)
	f("H'", g.H_, w.H_)
	f("L'", g.L_, w.L_)
	f("IX", g.IX, w.IX)
	f("IY", g.IY, w.IY)
	f("SP", g.SP, w.SP)
	f("PC", g.PC, w.PC)
	if g.IFF1 != w.IFF1 {
		fmt.Fprintf(&sb, "IFF1=%v want %v; ", g.IFF1, w.IFF1)
	}
	if g.IFF2 != w.IFF2 {
		fmt.Fprintf(&sb, "IFF2=%v want %v; ", g.IFF2, w.IFF2)
	}
	if g.IM != w.IM {
		fmt.Fprintf(&sb, "IM=%d want %d; ", g.IM, w.IM)
	}
	if g.Halt != w.Halt {
		fmt.Fprintf(&sb, "HALT=%v want %v; ", g.Halt, w.Halt)
	}
	return sb.String()
}

// LogDiff compares two access logs: final memory image and port output (C01),
// per-address read/write subsequences and the ordered port log (C05).
func LogDiff(gb, wb *bus.Rec) (ds []Disc) {
	g, w := gb.Log, wb.Log
	// fast path
	if len(g) == len(w) {
		same := true
		for i := range g {
			if g[i] != w[i] {
				same = false
				break
			}
		}
		if same {
			return nil
		}
	}
	// final image
	if ok, a := bus.Equal(gb, wb); !ok {
		ds = append(ds, Disc{KMemImg, fmt.Sprintf("mem[%04x]=%02x want %02x", a, gb.Peek(a), wb.Peek(a))})
	}
	// port outputs and complete port log
	var gp, wp, go_, wo []bus.Access
	for _, x := range g {
		if x.K == bus.In || x.K == bus.Out {
			gp = append(gp, x)
			if x.K == bus.Out {
				go_ = append(go_, x)
			}
		}
	}
	for _, x := range w {
		if x.K == bus.In || x.K == bus.Out {
			wp = append(wp, x)
			if x.K == bus.Out {
				wo = append(wo, x)
			}
		}
	}
	if !SameSeq(go_, wo) {
		ds = append(ds, Disc{KPortOut, fmt.Sprintf("port writes %s want %s", FmtLog(go_), FmtLog(wo))})
	}
	if !SameSeq(gp, wp) {
		ds = append(ds, Disc{KAccess, fmt.Sprintf("port log %s want %s", FmtLog(gp), FmtLog(wp))})
	}
	// per-address subsequences of memory accesses
	if m := perAddrDiff(g, w); m != "" {
		ds = append(ds, Disc{KAccess, m})
	}
	return
}

func SameSeq(a, b []bus.Access) bool {
	if len(a) != len(b) {
		return false
	}
	for i := range a {
		if a[i] != b[i] {
			return false
		}
	}
	return true
}

func perAddrDiff(g, w []bus.Access) string {
	type key = uint16
	gm := map[key][]bus.Access{}
	wm := map[key][]bus.Access{}
	var addrs []int
	seen := map[key]bool{}
	for _, x := range g {
		if x.K == bus.Read || x.K == bus.Write {
			gm[x.Addr] = append(gm[x.Addr], x)
			if !seen[x.Addr] {
				seen[x.Addr] = true
				addrs = append(addrs, int(x.Addr))
			}
		}
	}
	for _, x := range w {
		if x.K == bus.Read || x.K == bus.Write {
			wm[x.Addr] = append(wm[x.Addr], x)
			if !seen[x.Addr] {
				seen[x.Addr] = true
				addrs = append(addrs, int(x.Addr))
			}
		}
	}
	sort.Ints(addrs)
	for _, a := range addrs {
		if !SameSeq(gm[key(a)], wm[key(a)]) {
			return fmt.Sprintf("accesses at %04x: %s want %s", a, FmtLog(gm[key(a)]), FmtLog(wm[key(a)]))
		}
	}
	return ""
}

// FmtLog renders an access log.
func FmtLog(l []bus.Access) string {
	var sb strings.Builder
	sb.WriteString("[")
	for i, x := range l {
		if i > 0 {
			sb.WriteString(" ")
		}
		if i >= 24 {
			fmt.Fprintf(&sb, "... +%d", len(l)-i)
			break
		}
		switch x.K {
		case bus.In, bus.Out:
			fmt.Fprintf(&sb, "%s(%02x)=%02x", x.K, x.Addr, x.Val)
		default:
			fmt.Fprintf(&sb, "%s(%04x)=%02x", x.K, x.Addr, x.Val)
		}
	}
	sb.WriteString("]")
	return sb.String()
}

// SafeStep runs cpu.Step and converts a panic into a value.
func SafeStep(c *z80.CPU) (p any) {
	defer func() { p = recover() }()
	c.Step()
	return nil
}
