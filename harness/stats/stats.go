// Package stats collects what a check actually covered and writes it out as
// one JSON file per shard; the driver merges the shards into the evidence file.
package stats

import (
	"encoding/json"
	"fmt"
	"os"
	"path/filepath"
	"sort"
	"strconv"
	"sync"
)

// Env holds the run parameters handed over by the driver.
type Env struct {
	Tier    string // quick | thorough
	Seed    uint64 // VERIF_SEED (never 0)
	Shard   int
	NShards int
	OutDir  string // where stats-<shard>.json / violation-<shard>.json go
	Known   map[string]bool
}

// Load reads the environment variables set by the driver.
func Load() Env {
	e := Env{Tier: os.Getenv("VERIF_TIER"), OutDir: os.Getenv("VERIF_OUT"), Known: map[string]bool{}}
	if e.Tier == "" {
		e.Tier = "quick"
	}
	if e.OutDir == "" {
		e.OutDir = "."
	}
	e.Seed, _ = strconv.ParseUint(os.Getenv("VERIF_SEED"), 10, 64)
	if e.Seed == 0 {
		e.Seed = 1
	}
	e.Shard, _ = strconv.Atoi(os.Getenv("VERIF_SHARD"))
	e.NShards, _ = strconv.Atoi(os.Getenv("VERIF_NSHARDS"))
	if e.NShards <= 0 {
		e.NShards = 1
	}
	for _, k := range splitComma(os.Getenv("VERIF_KNOWN")) {
		e.Known[k] = true
	}
	return e
}

func splitComma(s string) []string {
	var out []string
	cur := ""
	for _, c := range s {
		if c == ',' {
			if cur != "" {
				out = append(out, cur)
			}
			cur = ""
		} else {
			cur += string(c)
		}
	}
	if cur != "" {
		out = append(out, cur)
	}
	return out
}

// Thorough reports whether the thorough tier was requested.
func (e Env) Thorough() bool { return e.Tier == "thorough" }

// Pick returns q in the quick tier and t in the thorough tier.
func (e Env) Pick(q, t int) int {
	if e.Thorough() {
		return t
	}
	return q
}

const bitsetBits = 1 << 26

// Collector accumulates counters. It is safe for concurrent use.
type Collector struct {
	mu          sync.Mutex
	Property    string
	Sub         string
	Evaluations int64
	NonTrivial  int64 // distinct non-trivial (lower bound, see Distinct)
	Labels      map[string]int64
	KnownHits   map[string]int64
	KnownText   map[string]string
	Samples     []any
	Notes       []string
	Exhaustive  bool
	Rule        string
	Extra       map[string]any
	bits        []uint64
	maxSamples  int
	sampleSeen  int64
}

// New creates a collector for one property.
func New(property string) *Collector {
	return &Collector{Property: property, Labels: map[string]int64{}, KnownHits: map[string]int64{},
		KnownText: map[string]string{}, Extra: map[string]any{}, maxSamples: 6}
}

// Eval counts n generated cases.
func (c *Collector) Eval(n int64) {
	c.mu.Lock()
	c.Evaluations += n
	c.mu.Unlock()
}

// Label counts one occurrence of a class label.
func (c *Collector) Label(name string) { c.LabelN(name, 1) }

// LabelN counts n occurrences of a class label.
func (c *Collector) LabelN(name string, n int64) {
	c.mu.Lock()
	c.Labels[name] += n
	c.mu.Unlock()
}

// Distinct registers a non-trivial case by hash. Distinctness is measured with
// a 2^26-bit set indexed by the hash: the number of newly set bits is a lower
// bound on the number of distinct hashes (collisions only under-count).
func (c *Collector) Distinct(h uint64) {
	c.mu.Lock()
	if c.bits == nil {
		c.bits = make([]uint64, bitsetBits/64)
	}
	h = Mix(h)
	i := h % bitsetBits
	w, b := i/64, uint64(1)<<(i%64)
	if c.bits[w]&b == 0 {
		c.bits[w] |= b
		c.NonTrivial++
	}
	c.mu.Unlock()
}

// DistinctN adds n cases known to be distinct and non-trivial by construction
// (used by complete enumerations, which count while enumerating).
func (c *Collector) DistinctN(n int64) {
	c.mu.Lock()
	c.NonTrivial += n
	c.mu.Unlock()
}

// Sample keeps a few cases (the first three, then hash-driven reservoir).
func (c *Collector) Sample(h uint64, v any) {
	c.mu.Lock()
	defer c.mu.Unlock()
	c.sampleSeen++
	if len(c.Samples) < c.maxSamples {
		c.Samples = append(c.Samples, v)
		return
	}
	// deterministic reservoir: replace slot 3.. by hash
	if Mix(h)%uint64(c.sampleSeen) < 3 {
		c.Samples[3+int(Mix(h>>7)%uint64(c.maxSamples-3))] = v
	}
}

// WantSample tells cheaply whether Sample would keep a case right now; used to
// avoid building the sample value for every case.
func (c *Collector) WantSample(h uint64) bool {
	c.mu.Lock()
	defer c.mu.Unlock()
	if len(c.Samples) < c.maxSamples {
		return true
	}
	return Mix(h)%uint64(c.sampleSeen+1) < 3
}

// Known counts a case excluded because it matches a known finding exactly.
func (c *Collector) Known(sig, text string) {
	c.mu.Lock()
	c.KnownHits[sig]++
	c.KnownText[sig] = text
	c.mu.Unlock()
}

// Note adds a free-text assumption / remark to the evidence.
func (c *Collector) Note(format string, a ...any) {
	c.mu.Lock()
	c.Notes = append(c.Notes, fmt.Sprintf(format, a...))
	c.mu.Unlock()
}

type shardFile struct {
	Property    string            `json:"property"`
	Shard       int               `json:"shard"`
	Evaluations int64             `json:"evaluations"`
	NonTrivial  int64             `json:"distinct_nontrivial"`
	Labels      map[string]int64  `json:"labels"`
	KnownHits   map[string]int64  `json:"known_finding_hits"`
	KnownText   map[string]string `json:"known_finding_text"`
	Samples     []any             `json:"samples"`
	Notes       []string          `json:"notes"`
	Exhaustive  bool              `json:"exhaustive"`
	Rule        string            `json:"rule"`
	Extra       map[string]any    `json:"extra"`
}

// Write stores the shard statistics where the driver looks for them.
func (c *Collector) Write(e Env) error {
	c.mu.Lock()
	defer c.mu.Unlock()
	sort.Strings(c.Notes)
	sf := shardFile{c.Property, e.Shard, c.Evaluations, c.NonTrivial, c.Labels, c.KnownHits, c.KnownText,
		c.Samples, c.Notes, c.Exhaustive, c.Rule, c.Extra}
	b, err := json.MarshalIndent(sf, "", " ")
	if err != nil {
		return err
	}
	return os.WriteFile(filepath.Join(e.OutDir, fmt.Sprintf("stats-%s-%s-%d.json", c.Property, c.Sub, e.Shard)), b, 0o644)
}

// Violation is the replayable description of one failing case.
type Violation struct {
	Property string `json:"property"`
	Engine   string `json:"engine"`
	Case     any    `json:"case"`
	Expect   string `json:"expect"`
	Got      string `json:"got"`
	FoundBy  string `json:"found_by"`
}

// WriteViolation (over)writes the violation file of this shard. Properties call
// it on every failing execution; rapid's last execution of a failing property
// replays the shrunk case, so the file ends up holding the minimal one.
func WriteViolation(e Env, v Violation) {
	if v.FoundBy == "" {
		v.FoundBy = fmt.Sprintf("seed=%d shard=%d/%d tier=%s", e.Seed, e.Shard, e.NShards, e.Tier)
		if cfg := os.Getenv("VERIF_BUILDCFG"); cfg != "" {
			v.FoundBy += " build=" + cfg
		}
	}
	b, _ := json.MarshalIndent(v, "", " ")
	_ = os.WriteFile(filepath.Join(e.OutDir, fmt.Sprintf("violation-%s-%d.json", v.Property, e.Shard)), b, 0o644)
}

// Mix is a 64-bit finaliser (splitmix64).
func Mix(x uint64) uint64 {
	x += 0x9E3779B97F4A7C15
	x = (x ^ (x >> 30)) * 0xBF58476D1CE4E5B9
	x = (x ^ (x >> 27)) * 0x94D049BB133111EB
	return x ^ (x >> 31)
}

// Hash folds values into one 64-bit hash.
func Hash(vs ...uint64) uint64 {
	h := uint64(0x243F6A8885A308D3)
	for _, v := range vs {
		h = Mix(h ^ v)
	}
	return h
}
