module github.com/koron-go/z80/verifharness

go 1.23

toolchain go1.23.5

require (
	github.com/koron-go/z80 v0.0.0
	pgregory.net/rapid v1.3.0
)

replace github.com/koron-go/z80 => /repo
