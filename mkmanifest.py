#!/usr/bin/env python3
"""Regenerates MANIFEST.json from the table below and from check.py's CFG.
Run after adding a check: python3 mkmanifest.py"""
import json
import os
import sys

sys.path.insert(0, os.path.dirname(os.path.abspath(__file__)))
import check  # noqa: E402

ALL = ["C%02d" % i for i in range(1, 20)]

# id -> (technique, level text, level note, design ref)
TEXT = {
    "C16": ("complete enumeration of the finite input space against bit definitions",
            "Every (op, mask, F, A) combination and every 16-bit register value is executed through the public accessors and "
            "compared with the bit-level definition; the space is finite and enumerated completely in both tiers, so for this "
            "property a pass means there is no counterexample.",
            "Trusted: the definitions written in c16_test.go (any-of for GetFlag, OR / AND-NOT, Z80 bit positions).",
            "DESIGN.md section 5, C16"),
}

NOT_YET = "check not built yet in this session (see DESIGN.md build order); property is within reach of the technique"


def main():
    checks = []
    na = []
    for pid in ALL:
        if pid in check.CFG and pid in TEXT:
            tech, text, note, ref = TEXT[pid]
            c = {
                "property_id": pid,
                "quick_cmd": "./check.sh %s quick" % pid,
                "thorough_cmd": "./check.sh %s thorough" % pid,
                "evidence_file": "/verif/evidence/%s.json" % pid,
                "replay_cmd_template": "./check.sh replay {path}",
                "engine": check.CFG[pid]["pkg"],
                "level_claimed": {"category": check.CFG[pid].get("level", "exploration"), "text": text, "design_ref": ref},
                "level_note": note,
                "technique": tech,
            }
            checks.append(c)
        else:
            na.append({"property_id": pid, "reason": NOT_YET})
    m = {
        "version": 1,
        "setup_cmd": "./check.sh setup",
        "hooks": {
            "guard": "verif",
            "enable": "no hooks: every check observes koron-go/z80 through its public API, user-supplied Memory/IO, the standard "
                      "logger, the race detector and the built command binaries; nothing in /repo is built with a tag",
            "baseline_off_cmd": "cd /repo && go test -vet=off -count=1 -timeout 25m ./...",
            "source_commits": [],
            "add_only": True,
        },
        "engines": [
            {"name": "core", "path": "harness/checks/core", "serves_properties": [p for p in ALL if check.CFG.get(p, {}).get("pkg") == "core"],
             "kind_free_text": "Go test binary (rapid v1.3.0 generators + enumerations) linked against /repo's working tree via a "
                               "replace directive; reference model in harness/ref; driver check.py shards it over the cores"},
        ],
        "checks": checks,
        "notes": "All checks are generated-input searches against explicit oracles (rapid generators, complete enumerations of finite "
                 "sub-spaces, native go fuzzing in thorough tiers). KNOWN_FINDINGS.txt lists genuine defects recorded rather than "
                 "repaired. Exit 2 = inconclusive (build failure/timeout), never reported as a violation.",
    }
    if na:
        m["not_applicable"] = na
    json.dump(m, open(os.path.join(check.VERIF, "MANIFEST.json"), "w"), indent=1)
    print("wrote MANIFEST.json: %d checks, %d not claimed" % (len(checks), len(na)))


if __name__ == "__main__":
    main()
