#!/usr/bin/env python3
"""Regenerates MANIFEST.json from the table below and from check.py's CFG.
Run after adding a check: python3 mkmanifest.py"""
import json
import os
import sys

sys.path.insert(0, os.path.dirname(os.path.abspath(__file__)))
import check  # noqa: E402

ALL = ["C%02d" % i for i in range(1, 20)]

# id -> (technique, level text, level note, design ref)
TEXT = {
    "C01": ("lock-step differential testing against an independent reference model; encodings enumerated, states by rapid generators",
            "Every one of the 930 encodings the tree implements (the model has six more, the undocumented RETN mirrors, compared only on trees that support them) is stepped from rapid-generated pre-states (edge-biased registers, all F values, wrap and aliasing shapes) and compared "
            "with an independently written Z80 model on the complete architectural state, flags under the mask on which Z80 chips agree, memory image and port output; multi-Step "
            "byte-soup programs (a third with interrupt requests, some raised by device callbacks in mid-Step) and the repository's exerciser images run as 50 000..300 000-Step programs on one CPU value are compared after every Step; "
            "thorough adds native coverage-guided fuzzing of the soup generator (rapid.MakeFuzz). A pass means no counterexample among the generated cases (10^7..10^9 Steps per run), not absence.",
            "Trusted: the reference model in harness/ref (algorithmic decode, bit-serial ALU, DAA table from Young), itself validated on every setup against 132 of the 134 "
            "zexdoc/zexall CRCs (the two BIT n,(HL)/(IX+d) groups depend on MEMPTR, which the property leaves unspecified).",
            "DESIGN.md sections 4.2, 5 C01"),
    "C02": ("complete enumeration of the A x operand x F cube through CPU.Step against tables of a bit-serial ALU",
            "All 559 encodings of the 8-bit ALU / rotate / shift / bit families are executed on the complete cube of the values they read (3.0e9 points) and compared with the "
            "bit-serial reference ALU, including the written operand and every register the instruction does not name. The cube is finite and enumerated completely in both tiers; "
            "the memory-operand encodings run once more on short / full DumbMemory, MapMemory and a read-sensitive memory.",
            "Trusted: the bit-serial definitions in harness/ref/alu.go (ripple-carry adder, parity loop, DAA table), cross-validated by the zex CRCs; the other registers, d and PC are fixed "
            "per encoding from the seed (their irrelevance is C01's subject).",
            "DESIGN.md section 5 C02"),
    "C03": ("enumeration of operand pairs x carry x preserved flag bits through CPU.Step against a wide-integer definition",
            "Thorough enumerates all 2^32 operand pairs x carry for each of the 15 non-doubling ADD HL/IX/IY, ADC HL, SBC HL encodings, plus structured pairs x all 256 F, doubling forms and "
            "INC/DEC ss over all 65536 values x 256 F; quick enumerates seed-positioned slices (2^24..2^28 pairs per encoding) plus the complete structured / doubling / INC-DEC parts. The whole register file is compared; "
            "instruction cells are read-sensitive, prefix-like bytes stand in front of the instruction, 1/2048 of the points run on a CPU value that has just executed an ineffective prefix.",
            "Trusted: the wide-integer flag definitions in c03_test.go, cross-checked on every run against the bit-serial adder on 1e6 points.",
            "DESIGN.md section 5 C03"),
    "C04": ("enumeration of all F / B values per conditional opcode x rapid-drawn placements against a directly written oracle, plus model-free round trips",
            "For every drawn placement (PC, SP, target, stack bytes incl. wrap and stack-overlaps-instruction shapes) all 256 F values are run through all 28 conditional opcodes, all 256 B through DJNZ, "
            "all 256 offsets through JR/DJNZ, and the unconditional / PUSH / POP forms once; post-state, exact stack reads and writes and 'no access when untaken' are compared with the manual's condition "
            "table and push/pop rule; CALL;RET and PUSH;POP round trips are checked without any model; generated call/return programs (return slot rewritten, patched-jump idiom) run in lock-step with the "
            "reference model and once more under CPU.Run, which must end in the same state.",
            "Trusted: the condition table and stack rule written in c04_test.go (independent of harness/ref).",
            "DESIGN.md section 5 C04"),
    "C05": ("differential comparison of per-Step access logs (recording bus) against the reference model's own accesses",
            "Every implemented encoding is stepped on a recording memory / port device whose port reads return data depending on port and read index; the per-address sequence of reads and writes and the "
            "ordered port log are compared with the model's. Pointer aliasing puts operands on the instruction bytes and at 0xFFFF. Multi-Step soups (repeating block instructions re-fetch) and the exerciser "
            "images as long programs are compared Step by Step as well.",
            "Trusted: the access list the model emits (appendix A.6); global order between different addresses is deliberately not compared.",
            "DESIGN.md section 5 C05"),
    "C06": ("exhaustive control-bit matrix x sampled data, and rapid state-machine histories, against an interrupt-controller model",
            "The complete matrix type x mode x IFF1 x IFF2 x running/parked is enumerated with all RST p, CALL, all 128 even vectors; histories of EI/DI/RETN/RETI/IM/HALT steps and requests raised at any time "
            "(also by a device callback in the middle of a Step or of an acknowledge; nesting >= 3 in most sequences) are compared Step by Step; all 930 encodings are checked for flip-flop and handler-notification side effects. Both legal timings after EI and both legal return "
            "addresses for a CPU parked on HALT are accepted.",
            "Trusted: ref.Accept (appendix A.5). Known finding im0-executes-at-pc is recognised only when the emulator's result equals the model with exactly that quirk enabled.",
            "DESIGN.md section 5 C06"),
    "C07": ("metamorphic testing: interrupted run == uninterrupted run, over grammar-generated programs x every injection point",
            "Register-transparent programs from a statement grammar (loops, calls, block instructions, DI/EI sections, three memory layouts) are run once undisturbed and then once per Step boundary and "
            "interrupt kind with generated handlers; final registers, flags, IFF, memory outside the stack bytes below SP and port output must be equal and the pushed word must be the PC of the first instruction not yet executed.",
            "No model needed for the verdict; the reference model is only used to recognise the known mode-0 finding exactly.",
            "DESIGN.md section 5 C07"),
    "C08": ("differential testing of Run against a Step-driven twin with the stop rule written from the property",
            "Generated terminating programs and byte strings x breakpoint sets x up to six consecutive Run calls x stale HALT x device scripts that raise requests at a chosen access; error, registers incl. R, "
            "HALT, memory, access count, pending request and port output are compared after every call; break points are also armed by device callbacks during a call, and a third of the twins never write the HALT field.",
            "Trusted: Step (decided by C01/C06) and the ten-line stop rule in c08_test.go.",
            "DESIGN.md section 5 C08"),
    "C09": ("closed-form functional specification of the whole block operation vs Step-until-done; lock-step model for self-modifying runs",
            "All 16 block encodings from drawn counters (0, 1, 255, 256, 65535 ...), overlapping and wrapping pointers and CPIR hit positions are run to completion (up to 65536 Steps) and compared with a "
            "closed-form specification: memory image, pointers, counters, documented flags, port log, exact Step count, one element per Step; single forms equal the first element of the repeat forms.",
            "Trusted: the closed forms in c09_test.go (independent of ref.Step); runs whose writes hit the instruction itself are decided by ref.Step instead.",
            "DESIGN.md section 5 C09"),
    "C10": ("metamorphic testing (clone == original, interleaved == alone, concurrent == alone) under the race detector",
            "Byte-soup programs with interrupts and rewrite/set-PC actions: a CPU rebuilt from copies of States, pending request, HALT and memory at snapshot points must continue exactly like the original; "
            "a CPU stepped alternately with another one must reproduce its solo trace; 2..16 goroutines running their own CPUs (Step-driven, and Run-driven with their own break points) must each reproduce their solo trace; "
            "the same at Run boundaries (a CPU rebuilt before every Run call); machines without I/O device, unsupported encodings under contention, observer registration flipped on clones; built with -race.",
            "The race detector only sees races in the schedules that ran; hidden state is detected only if it influences an executed trace.",
            "DESIGN.md section 5 C10"),
    "C11": ("metamorphic IX<->IY mirror over all 2 x 256 prefixed byte values x rapid-drawn states, no model",
            "Every second byte after DD/FD and every fourth byte after DDCB/FDCB is run as DD form from S and FD form from swap(S); post-states must mirror and access sequences be identical apart from "
            "the prefix byte; re-running with the other index register perturbed must change nothing else, and at every bus access a device finds the other index register as it was.",
            "Cases where a data access hits the prefix byte's own address are excluded (the property exempts the prefix byte) and counted.",
            "DESIGN.md section 5 C11"),
    "C12": ("robustness fuzzing: deterministic prefix sweep, rapid-generated byte strings and (thorough) native coverage-guided go fuzzing, with a semantic oracle for invalid opcodes",
            "Arbitrary bytes are decoded into registers (any IM), memory kind and length (biased to the addresses in use +-1), IO kind, program bytes at PC and at 0xFFF0.., and an interrupt schedule with any "
            "Type and 0..65537 data bytes (a quarter raised by the memory itself in mid-Step; an exhaustive sweep of second requests raised during an acknowledge); up to 64 Steps under recover and a watchdog; an opcode logged as invalid must change only PC and R and consume exactly the bytes it read; programs seen to halt must make Run return.",
            "Cannot show termination of Run for programs not observed to halt (outside the property).",
            "DESIGN.md section 5 C12"),
    "C13": ("schedule-owning fault injection: cancellation instants generated by the harness, Step-driven twin, goroutine accounting, race detector",
            "Batches of Run calls over tight loops, block loops, I/O loops and terminating programs with the context cancelled before the call, from a bus callback at a chosen access, from a timer goroutine, "
            "by deadline, or never (plain, cause-carrying and foreign context types; masked, mode-0 and storming requests pending; unreached break points; programs that end at once); the returned error, a 10 s bound on the delay "
            "(300 ms after 1.0 / 1.414 s of running), equality with a twin stopped at the same access count (whole Steps), goroutine count after each batch and race reports are checked.",
            "Bounded delay uses a wall-clock bound four orders of magnitude above normal behaviour; data races are only seen in executed schedules.",
            "DESIGN.md section 5 C13"),
    "C14": ("enumeration of all 256 R values x I values per encoding plus rapid-drawn states against the fetch-count rule",
            "All 930 implemented encodings x all 256 starting R x several I values are stepped and R/I compared with the fetch-count rule (1 / 2 / DDCB 2-or-3, bit 7 kept, LD R,A / LD I,A only writers); "
            "LD A,R / LD A,I over all R x IFF2 x all F; multi-Step programs with block repeats and HALT; short memories; the exerciser images as long programs; R after whole block operations and after Run calls.",
            "Trusted: the prefix-class table of the reference model.",
            "DESIGN.md section 5 C14"),
    "C15": ("model-based stateful testing (rapid) against array / map models",
            "Generated operation histories on DumbMemory (lengths 0..65536, addresses biased to len-1, len, len+1), DumbIO and pools of MapMemory values (Set/Put with wrap/Clone/Clear/Equal); "
            "after every operation all touched addresses and neighbours are read back and compared with the model (blocks up to 65 600 bytes, moves inside the store, Clear seen through a second handle, equality unchanged by reads, nil vs initialised).",
            "Nil maps and 'explicit default entry vs absent entry' in Equal are not asserted (ambiguous in the property).",
            "DESIGN.md section 5 C15"),
    "C16": ("complete enumeration of the finite input space against bit definitions",
            "Every (op, mask, F, A) combination and every 16-bit register value is executed through the public accessors (directly and via CPU) and compared with the bit-level definition; "
            "the space is finite and enumerated completely in both tiers, so a pass means there is no counterexample; one combination in 16 also on copies of used CPU values, after EX AF,AF' / EXX, from inside device callbacks, and every mask once more written as a complement.",
            "Trusted: the definitions written in c16_test.go (any-of for GetFlag, OR / AND-NOT, Z80 bit positions).",
            "DESIGN.md section 5 C16"),
    "C17": ("complete differential comparison of the Go tables with records parsed out of the canonical program images (SHA-256 pinned)",
            "All 2 x 67 records x 65 bytes + message are located through the images' own pointer tables and compared byte for byte, in order, with internal/zex; counts must match. "
            "The space is finite and compared completely, in a plain and in a -race build; there is nothing to sample.",
            "Trusted: the SHA-256 values of zexdoc.cim / zexall.cim taken from the pristine tree, and the 40-line image parser.",
            "DESIGN.md section 5 C17"),
    "C18": ("generated client programs run on the bundled CP/M machine against an expected-console-string oracle",
            "Programs with drawn sequences of function-2 / function-9 calls (strings of 0..4096 bytes of every value but '$' at drawn addresses), unsupported functions and stray port accesses, "
            "with a breakpoint after every CALL 5: console bytes, return address, SP, final halt at 0xFF03, intact code and warning count are checked; console writers = buffer, failing-once recorder, *os.File; other registers loaded before calls; several machines printing concurrently (race).",
            "After an unsupported function only 'no panic, output so far as requested' is asserted (the property is silent).",
            "DESIGN.md section 5 C18"),
    "C19": ("differential testing of the freshly built binaries against an independently written container encoder",
            "cim2bin and cim2cas are built from the current tree and executed on drawn offsets (decimal / hex / default), lengths incl. exact fit to 0xFFFF, contents incl. container-magic bytes, and names of "
            "0..12 characters (incl. default from the file name, argument spelled with directory parts, other extensions, -nam= passed empty); image from a file or piped in pieces, output to files (fresh, stale, the input itself) or /dev/stdout; outputs must be byte-equal to the encoder written from the property text.",
            "Process execution makes cases expensive (ms each): hundreds (quick) to tens of thousands (thorough) of executions.",
            "DESIGN.md section 5 C19"),
}

NOT_YET = "check not built yet in this session (see DESIGN.md build order); property is within reach of the technique"


def main():
    checks = []
    na = []
    for pid in ALL:
        if pid in check.CFG and pid in TEXT:
            tech, text, note, ref = TEXT[pid]
            c = {
                "property_id": pid,
                "quick_cmd": "./check.sh %s quick" % pid,
                "thorough_cmd": "./check.sh %s thorough" % pid,
                "evidence_file": "/verif/evidence/%s.json" % pid,
                "replay_cmd_template": "./check.sh replay {path}",
                "engine": check.CFG[pid]["pkg"],
                "level_claimed": {"category": check.CFG[pid].get("level", "exploration"), "text": text, "design_ref": ref},
                "level_note": note,
                "technique": tech,
            }
            checks.append(c)
        else:
            na.append({"property_id": pid, "reason": NOT_YET})
    m = {
        "version": 1,
        "setup_cmd": "./check.sh setup",
        "hooks": {
            "guard": "verif",
            "enable": "no hooks: every check observes koron-go/z80 through its public API, user-supplied Memory/IO, the standard "
                      "logger, the race detector and the built command binaries; nothing in /repo is built with a tag",
            "baseline_off_cmd": "cd /repo && go test -vet=off -count=1 -timeout 25m ./...",
            "source_commits": [],
            "add_only": True,
        },
        "engines": [
            {"name": pkg, "path": "harness/checks/" + pkg, "serves_properties": [p for p in ALL if check.CFG.get(p, {}).get("pkg") == pkg],
             "kind_free_text": "Go test binary (rapid v1.3.0 generators, complete enumerations, native go fuzzing) linked against /repo's working tree "
                               "via a replace directive; reference model in harness/ref; driver check.py builds it, shards it over the cores and merges the evidence"}
            for pkg in ["core", "total", "zexchk", "cpm", "cim"]
        ],
        "checks": checks,
        "notes": "All checks are generated-input searches against explicit oracles (rapid generators, complete enumerations of finite "
                 "sub-spaces, native go fuzzing in thorough tiers). KNOWN_FINDINGS.txt lists genuine defects recorded rather than "
                 "repaired. Exit 2 = inconclusive (build failure/timeout), never reported as a violation.",
    }
    if na:
        m["not_applicable"] = na
    json.dump(m, open(os.path.join(check.VERIF, "MANIFEST.json"), "w"), indent=1)
    print("wrote MANIFEST.json: %d checks, %d not claimed" % (len(checks), len(na)))


if __name__ == "__main__":
    main()
