#!/bin/sh
# entry used by every MANIFEST command: ./check.sh <ID> <quick|thorough> | replay <path> | setup
cd "$(dirname "$0")" || exit 2
exec python3 ./check.py "$@"
