#!/usr/bin/env python3
"""Driver for the koron-go/z80 property checks (see DESIGN.md section 3.1).

usage: check.py <ID> <quick|thorough>
       check.py replay <path>
       check.py setup

exit 0: property held on everything explored
exit 1: a line `VIOLATION property=<ID> replay=<path>` was printed
exit 2: inconclusive (build failure, timeout, worker death) - never a VIOLATION
"""
import hashlib
import json
import os
import shutil
import subprocess
import sys
import tempfile
import time

VERIF = os.path.dirname(os.path.abspath(__file__))
HARNESS = os.path.join(VERIF, "harness")
REPO = os.environ.get("VERIF_REPO", "/repo")
# where evidence and newly found replay cases go (overridden by the sensitivity scripts, which run checks
# against scratch copies of the repository and must not touch the committed evidence)
EVIDENCE_DIR = os.environ.get("VERIF_EVIDENCE_DIR", os.path.join(VERIF, "evidence"))
REPLAY_OUT = os.environ.get("VERIF_REPLAY_OUT", os.path.join(VERIF, "replay"))
NCPU = os.cpu_count() or 4

GOENV = {
    "GOFLAGS": "-mod=mod",
    "GOPROXY": "off",
    "GOSUMDB": "off",
    "GOTOOLCHAIN": "local",
    "GONOSUMCHECK": "1",
    "GONOSUMDB": "*",
}

# property -> configuration
#  pkg: test package; test: -test.run regex; race: build with -race
#  shards: (quick, thorough); checks: (quick, thorough) value of -rapid.checks
#  steps: -rapid.steps; timeout: seconds (quick, thorough)
CFG = {
    "C01": dict(pkg="core", shards=(8, 16), oracle_selfcheck=True, fuzz=dict(pkg="core", target="^FuzzC01Soup$", seconds=(0, 120)), tests=[
        dict(test="^TestC01Step$", checks=(8000, 40000)),
        dict(test="^TestC01Soup$", checks=(60000, 2000000)),
        dict(test="^TestC01Exerciser$", checks=(10, 150))]),
    "C02": dict(pkg="core", shards=(1, 1), tests=[
        dict(test="^TestC02$", checks=(1, 1)),
        dict(test="^TestC02Machines$", checks=(1, 1))]),
    "C03": dict(pkg="core", test="^TestC03$", shards=(1, 1), checks=(1, 1)),
    "C04": dict(pkg="core", shards=(8, 16), tests=[
        dict(test="^TestC04$", checks=(600, 12000)),
        dict(test="^TestC04Programs$", checks=(50000, 1000000))]),
    "C05": dict(pkg="core", shards=(8, 16), oracle_selfcheck=True, tests=[
        dict(test="^TestC05Step$", checks=(8000, 40000)),
        dict(test="^TestC05Soup$", checks=(40000, 2000000)),
        dict(test="^TestC05Exerciser$", checks=(6, 100))]),
    "C06": dict(pkg="core", test="^TestC06", shards=(8, 16), checks=(1500, 40000), steps=(60, 80)),
    "C07": dict(pkg="core", test="^TestC07$", shards=(8, 16), checks=(3000, 40000)),
    "C08": dict(pkg="core", test="^TestC08$", shards=(8, 16), checks=(20000, 300000)),
    "C09": dict(pkg="core", test="^TestC09$", shards=(8, 16), checks=(12000, 100000)),
    "C10": dict(pkg="core", race=True, shards=(8, 16), tests=[
        dict(test="^TestC10Deterministic$", checks=(400, 20000)),
        dict(test="^TestC10Concurrent$", checks=(60, 3000)),
        dict(test="^TestC10Boundary$", checks=(60, 3000)),
        dict(test="^TestC10Constructors$", checks=(1, 1)),
        dict(test="^TestC10MemoryKinds$", checks=(60, 3000)),
        dict(test="^TestC10RunSnapshot$", checks=(200, 8000)),
        dict(test="^TestC10RunConcurrent$", checks=(30, 1500))]),
    "C11": dict(pkg="core", test="^TestC11$", shards=(8, 16), checks=(8000, 60000)),
    "C12": dict(pkg="total", test="^TestC12$", shards=(8, 16), checks=(45000, 1500000),
                fuzz=dict(pkg="total", target="^FuzzTotal$", seconds=(0, 300))),
    "C13": dict(pkg="core", race=True, shards=(8, 16), shrinktime="5s", tests=[
        dict(test="^TestC13$", checks=(40, 500)),
        dict(test="^TestC13LongRun$", checks=(1, 1))]),
    "C14": dict(pkg="core", shards=(8, 16), tests=[
        dict(test="^TestC14Enum$", checks=(2, 40)),
        dict(test="^TestC14Step$", checks=(1000, 20000)),
        dict(test="^TestC14Soup$", checks=(20000, 1000000)),
        dict(test="^TestC14Pending$", checks=(200, 20000)),
        dict(test="^TestC14ShortMemory$", checks=(1, 1)),
        dict(test="^TestC14Exerciser$", checks=(6, 100)),
        dict(test="^TestC14Blocks$", checks=(150, 6000)),
        dict(test="^TestC14Run$", checks=(1500, 60000))]),
    "C15": dict(pkg="core", test="^TestC15$", shards=(8, 16), checks=(20000, 400000)),
    "C16": dict(pkg="core", test="^TestC16$", shards=(1, 1), checks=(1, 1)),
    "C17": dict(pkg="zexchk", shards=(1, 1), tests=[
        dict(test="^TestC17$", checks=(1, 1)),
        dict(test="^TestC17$", checks=(1, 1), race=True)]),
    "C18": dict(pkg="cpm", race=True, shards=(8, 16), tests=[
        dict(test="^TestC18$", checks=(1500, 40000)),
        dict(test="^TestC18Concurrent$", checks=(40, 2000))]),
    "C19": dict(pkg="cim", test="^TestC19$", shards=(8, 16), checks=(600, 4000)),
}

LEVEL_DEFAULT = "exploration"


def goenv():
    e = dict(os.environ)
    e.update(GOENV)
    return e


def known_findings():
    """Parse KNOWN_FINDINGS.txt -> {property: {sig: text}} (only `known:` lines)."""
    out = {}
    p = os.path.join(VERIF, "KNOWN_FINDINGS.txt")
    if not os.path.exists(p):
        return out
    for line in open(p):
        line = line.strip()
        if not line.startswith("known:"):
            continue
        parts = line[len("known:"):].split()
        prop = sig = None
        rest = []
        for w in parts:
            if w.startswith("property=") and prop is None:
                prop = w[len("property="):]
            elif w.startswith("sig=") and sig is None:
                sig = w[len("sig="):]
            else:
                rest.append(w)
        if prop and sig:
            out.setdefault(prop, {})[sig] = " ".join(rest)
    return out


def build(work, pkg, race):
    """go test -c the package against REPO's working tree; returns binary path or None."""
    modfile = os.path.join(work, "go.mod")
    src = open(os.path.join(HARNESS, "go.mod")).read()
    src = src.replace("=> /repo", "=> " + REPO)
    open(modfile, "w").write(src)
    shutil.copy(os.path.join(HARNESS, "go.sum"), os.path.join(work, "go.sum"))
    out = os.path.join(work, pkg.replace("/", "_") + (".race" if race else "") + ".test")
    cmd = ["go", "test", "-c", "-modfile=" + modfile, "-o", out]
    if race:
        cmd.append("-race")
    cmd.append("./checks/" + pkg)
    r = subprocess.run(cmd, cwd=HARNESS, env=goenv(), stdout=subprocess.PIPE, stderr=subprocess.STDOUT, text=True)
    if r.returncode != 0 or not os.path.exists(out):
        print("BUILD-FAILED (inconclusive):")
        print(r.stdout)
        return None
    return out


def store_violation(prop, vpath):
    data = open(vpath, "rb").read()
    h = hashlib.sha256(data).hexdigest()[:16]
    d = os.path.join(REPLAY_OUT, prop)
    os.makedirs(d, exist_ok=True)
    dst = os.path.join(d, "found-" + h + ".json")
    open(dst, "wb").write(data)
    return dst


def tail(s, n=40):
    lines = s.splitlines()
    return "\n".join(lines[-n:])


def run_check(prop, tier):
    cfg = CFG[prop]
    t0 = time.time()
    seed = int(os.environ.get("VERIF_SEED", "1") or "1")
    if seed == 0:
        seed = 1
    ti = 1 if tier == "thorough" else 0
    work = tempfile.mkdtemp(prefix="verif-%s-" % prop)
    try:
        return _run_check(prop, tier, cfg, seed, ti, work, t0)
    finally:
        shutil.rmtree(work, ignore_errors=True)


def _run_check(prop, tier, cfg, seed, ti, work, t0):
    binp = build(work, cfg["pkg"], cfg.get("race", False))
    if binp is None:
        return 2
    known = known_findings().get(prop, {})
    base_env = goenv()
    base_env.update({
        "VERIF_TIER": tier, "VERIF_SEED": str(seed), "VERIF_PROP": prop, "VERIF_REPO": REPO, "VERIF_DIR": VERIF,
        "VERIF_KNOWN": ",".join(sorted(known)), "VERIF_WORK": work,
    })
    if cfg.get("race"):
        base_env["GORACE"] = "halt_on_error=0 exitcode=66 log_path=" + os.path.join(work, "race")
    violations = []
    selfcheck_note = None
    if cfg.get("oracle_selfcheck"):
        zb = build(work, "zexchk", False)
        if zb is not None:
            e = dict(base_env)
            e.update({"VERIF_OUT": work})
            r = subprocess.run([zb, "-test.run", "^TestRefModelZex$", "-test.timeout", "600s"], cwd=work, env=e,
                               stdout=subprocess.PIPE, stderr=subprocess.STDOUT, text=True)
            for line in r.stdout.splitlines():
                if line.startswith("REFMODEL-ZEX:"):
                    selfcheck_note = "oracle self-validation on this run: " + line[len("REFMODEL-ZEX:"):].strip()
        if selfcheck_note is None:
            selfcheck_note = "oracle self-validation could not be run on this tree (internal/zex did not build or the run failed)"

    # --- replay tier -------------------------------------------------------
    rdir = os.path.join(VERIF, "replay")
    if os.path.isdir(os.path.join(rdir, prop)) and os.listdir(os.path.join(rdir, prop)):
        e = dict(base_env)
        e.update({"VERIF_REPLAY_DIR": rdir, "VERIF_OUT": work, "VERIF_SHARD": "0", "VERIF_NSHARDS": "1"})
        r = subprocess.run([binp, "-test.run", "^TestReplay$", "-test.timeout", "600s"], cwd=work, env=e,
                           stdout=subprocess.PIPE, stderr=subprocess.STDOUT, text=True)
        for line in r.stdout.splitlines():
            if line.startswith("REPLAY-FAIL "):
                f = [w for w in line.split() if w.startswith("file=")][0][5:]
                violations.append(f)
                print(line)
        if r.returncode != 0 and not violations:
            print("REPLAY-TIER-ERROR (inconclusive):")
            print(tail(r.stdout))
            return 2

    # --- generation tier ---------------------------------------------------
    nsh = cfg["shards"][ti]
    nsh = max(1, min(nsh, NCPU))
    timeout = cfg.get("timeout", (900, 7200))[ti]
    tests = cfg.get("tests") or [dict(test=cfg["test"], checks=cfg["checks"], steps=cfg.get("steps"))]
    results = {}
    inconclusive = False
    deadline = time.time() + timeout
    # tests marked race=True run from a second binary of the same package built with -race (another build
    # configuration of the code under test: build tags, the race detector's instrumentation)
    race_binp = None
    if any(tc.get("race") for tc in tests) and not cfg.get("race"):
        race_binp = build(work, cfg["pkg"], True)
        if race_binp is None:
            return 2

    def shard_worker(s):
        sd = os.path.join(work, "shard-%d" % s)
        os.makedirs(sd)
        e = dict(base_env)
        e.update({"VERIF_OUT": sd, "VERIF_SHARD": str(s), "VERIF_NSHARDS": str(nsh)})
        for k, v in cfg.get("env", {}).items():
            e[k] = str(v[ti] if isinstance(v, (tuple, list)) else v)
        rc = 0
        timed_out = False
        with open(os.path.join(sd, "log.txt"), "w") as lf:
            for ti_, tc in enumerate(tests):
                rseed = (seed * 1000003 + s * 7919 + ti_ * 104729 + 1) & 0x7fffffffffffffff or 1
                e["VERIF_BUILDCFG"] = "race" if tc.get("race") else ""
                args = [race_binp if (tc.get("race") and race_binp) else binp, "-test.run", tc["test"], "-test.timeout", "%ds" % (timeout + 60),
                        "-rapid.seed=%d" % rseed, "-rapid.checks=%d" % tc["checks"][ti], "-rapid.nofailfile",
                        "-rapid.shrinktime=%s" % cfg.get("shrinktime", "20s")]
                if tc.get("steps"):
                    args.append("-rapid.steps=%d" % tc["steps"][ti])
                p = subprocess.Popen(args, cwd=sd, env=e, stdout=lf, stderr=subprocess.STDOUT)
                try:
                    p.wait(timeout=max(1, deadline - time.time()))
                except subprocess.TimeoutExpired:
                    p.kill()
                    p.wait()
                    timed_out = True
                if p.returncode != 0:
                    rc = p.returncode
                    break
        results[s] = (sd, rc, timed_out)

    import threading
    threads = [threading.Thread(target=shard_worker, args=(s,)) for s in range(nsh)]
    for th in threads:
        th.start()
    for th in threads:
        th.join()

    class _P:
        pass
    procs = []
    for s in range(nsh):
        sd, rc, timed_out = results[s]
        pp = _P()
        pp.returncode = rc
        if timed_out:
            print("TIMEOUT shard %d (inconclusive)" % s)
            inconclusive = True
        procs.append((s, sd, pp, None))
    fuzz_execs = 0
    fz = cfg.get("fuzz")
    if fz and fz["seconds"][ti] > 0 and not any(results[s][1] != 0 for s in results):
        fd = os.path.join(work, "fuzz")
        os.makedirs(fd)
        e = dict(base_env)
        e.update({"VERIF_OUT": fd, "VERIF_SHARD": "99", "VERIF_NSHARDS": "1"})
        pkgdir = os.path.join(HARNESS, "checks", fz["pkg"])
        crashdir = os.path.join(pkgdir, "testdata", "fuzz")
        cmd = ["go", "test", "-modfile=" + os.path.join(work, "go.mod"), "-run", "^$", "-fuzz", fz["target"],
               "-fuzztime", "%ds" % fz["seconds"][ti], "./checks/" + fz["pkg"], "-test.fuzzcachedir=" + os.path.join(fd, "cache")]
        r = subprocess.run(cmd, cwd=HARNESS, env=e, stdout=subprocess.PIPE, stderr=subprocess.STDOUT, text=True)
        open(os.path.join(fd, "log.txt"), "w").write(r.stdout)
        import re
        for m in re.finditer(r"execs: (\d+)", r.stdout):
            fuzz_execs = max(fuzz_execs, int(m.group(1)))
        vf = [f for f in os.listdir(fd) if f.startswith("violation-")]
        for f in vf:
            violations.append(store_violation(prop, os.path.join(fd, f)))
        if os.path.isdir(crashdir):
            shutil.rmtree(crashdir, ignore_errors=True)  # the violation file is the replay artefact
            try:
                os.rmdir(os.path.join(pkgdir, "testdata"))
            except OSError:
                pass
        if r.returncode != 0 and not vf:
            print("FUZZ-STAGE-FAILED without violation file (inconclusive):")
            print(tail(r.stdout))
            inconclusive = True
    merged = dict(evaluations=0, distinct=0, labels={}, known={}, known_text={}, samples=[], notes=[], rules=[],
                  exhaustive=True, extra={})
    nstats = 0
    for s, sd, p, lf in procs:
        log = open(os.path.join(sd, "log.txt")).read()
        vfiles = [f for f in os.listdir(sd) if f.startswith("violation-")]
        races = [f for f in os.listdir(work) if f.startswith("race")]
        for f in vfiles:
            violations.append(store_violation(prop, os.path.join(sd, f)))
        if p.returncode not in (0, None) and not vfiles:
            if cfg.get("race") and races:
                # race detector report: the log is the replay artefact
                rp = os.path.join(work, races[0])
                doc = {"property": prop, "engine": "race", "case": {"race_log": open(rp).read()[:20000]},
                       "expect": "no data race", "got": "race detector report", "found_by": "seed=%d shard=%d" % (seed, s)}
                tmp = os.path.join(sd, "violation-race.json")
                json.dump(doc, open(tmp, "w"), indent=1)
                violations.append(store_violation(prop, tmp))
            else:
                print("WORKER-FAILED shard %d rc=%s without violation file (inconclusive):" % (s, p.returncode))
                print(tail(log))
                inconclusive = True
        for f in os.listdir(sd):
            if f.startswith("stats-") and f.endswith(".json"):
                st = json.load(open(os.path.join(sd, f)))
                nstats += 1
                merged["evaluations"] += st["evaluations"]
                merged["distinct"] += st["distinct_nontrivial"]
                for k, v in (st.get("labels") or {}).items():
                    merged["labels"][k] = merged["labels"].get(k, 0) + v
                for k, v in (st.get("known_finding_hits") or {}).items():
                    merged["known"][k] = merged["known"].get(k, 0) + v
                merged["known_text"].update(st.get("known_finding_text") or {})
                if len(merged["samples"]) < 8:
                    merged["samples"].extend((st.get("samples") or [])[: max(1, 8 // nsh)])
                for n in st.get("notes") or []:
                    if n not in merged["notes"]:
                        merged["notes"].append(n)
                if st.get("rule") and st["rule"] not in merged["rules"]:
                    merged["rules"].append(st["rule"])
                merged["exhaustive"] = merged["exhaustive"] and bool(st.get("exhaustive"))
                for k, v in (st.get("extra") or {}).items():
                    if isinstance(v, (int, float)) and isinstance(merged["extra"].get(k, 0), (int, float)):
                        merged["extra"][k] = merged["extra"].get(k, 0) + v
                    else:
                        merged["extra"][k] = v
    wall = time.time() - t0
    # --- evidence ------------------------------------------------------------
    for sig, n in sorted(merged["known"].items()):
        print("KNOWN-FINDING: property=%s sig=%s %s (%d matching cases excluded)" %
              (prop, sig, known.get(sig, merged["known_text"].get(sig, "")), n))
    ev = {
        "property_id": prop, "tier": tier, "seed": seed, "level": cfg.get("level", LEVEL_DEFAULT),
        "coverage": {
            "evaluations": merged["evaluations"], "distinct_nontrivial": merged["distinct"],
            "rule": " || ".join(sorted(merged["rules"])), "samples": merged["samples"][:8],
            "exhaustive": bool(merged["exhaustive"] and nstats > 0),
            "labels": dict(sorted(merged["labels"].items())),
            "known_finding_hits": merged["known"], "shards": nsh,
        },
        "assumptions": merged["notes"],
        "wall_s": round(wall, 2),
        "violations": len(violations),
    }
    if selfcheck_note:
        ev["assumptions"].append(selfcheck_note)
    ev["coverage"].update(merged["extra"])
    if fuzz_execs:
        ev["coverage"]["native_fuzz_execs"] = fuzz_execs
        ev["coverage"]["evaluations"] += fuzz_execs
    if nstats > 0 or violations:
        os.makedirs(EVIDENCE_DIR, exist_ok=True)
        tmp = os.path.join(EVIDENCE_DIR, ".%s.json.tmp" % prop)
        json.dump(ev, open(tmp, "w"), indent=1, sort_keys=False)
        os.replace(tmp, os.path.join(EVIDENCE_DIR, prop + ".json"))
    if violations:
        for v in violations:
            print("VIOLATION property=%s replay=%s" % (prop, v))
        return 1
    if inconclusive or nstats == 0:
        print("INCONCLUSIVE property=%s" % prop)
        return 2
    print("OK property=%s tier=%s evaluations=%d distinct_nontrivial=%d wall=%.1fs" %
          (prop, tier, merged["evaluations"], merged["distinct"], wall))
    return 0


def run_replay(path):
    doc = json.load(open(path))
    prop = doc["property"]
    cfg = CFG[prop]
    work = tempfile.mkdtemp(prefix="verif-replay-")
    try:
        # a case found in another build configuration (found_by mentions it) is replayed in that configuration
        race = cfg.get("race", False) or "build=race" in doc.get("found_by", "")
        binp = build(work, cfg["pkg"], race)
        if binp is None:
            return 2
        e = goenv()
        e.update({"VERIF_REPLAY_FILE": os.path.abspath(path), "VERIF_PROP": prop, "VERIF_OUT": work, "VERIF_REPO": REPO,
                  "VERIF_DIR": VERIF, "VERIF_WORK": work,
                  "VERIF_KNOWN": ",".join(sorted(known_findings().get(prop, {})))})
        r = subprocess.run([binp, "-test.run", "^TestReplay$", "-test.timeout", "600s"], cwd=work, env=e,
                           stdout=subprocess.PIPE, stderr=subprocess.STDOUT, text=True)
        print(tail(r.stdout, 20))
        if "REPLAY-FAIL" in r.stdout:
            print("VIOLATION property=%s replay=%s" % (prop, os.path.abspath(path)))
            return 1
        return 0 if r.returncode == 0 else 2
    finally:
        shutil.rmtree(work, ignore_errors=True)


def setup():
    """Warm the build cache: compile every test package once (plain and -race) and validate the oracle."""
    work = tempfile.mkdtemp(prefix="verif-setup-")
    rc = 0
    try:
        zb = build(work, "zexchk", False)
        if zb is None:
            return 1
        r = subprocess.run([zb, "-test.run", "^TestRefModelZex$"], cwd=work, env=goenv(), stdout=subprocess.PIPE,
                           stderr=subprocess.STDOUT, text=True)
        print(tail(r.stdout, 5))
        if r.returncode != 0:
            print("SETUP: reference model does not reproduce the exerciser CRCs")
            return 1
        seen = set()
        for prop, cfg in sorted(CFG.items()):
            key = (cfg["pkg"], cfg.get("race", False))
            if key in seen:
                continue
            seen.add(key)
            if build(work, key[0], key[1]) is None:
                rc = 1
    finally:
        shutil.rmtree(work, ignore_errors=True)
    return rc


def main():
    if len(sys.argv) >= 2 and sys.argv[1] == "setup":
        sys.exit(setup())
    if len(sys.argv) >= 3 and sys.argv[1] == "replay":
        sys.exit(run_replay(sys.argv[2]))
    if len(sys.argv) < 2 or sys.argv[1] not in CFG:
        print(__doc__)
        sys.exit(2)
    tier = sys.argv[2] if len(sys.argv) > 2 else os.environ.get("VERIF_TIER", "quick")
    if tier not in ("quick", "thorough"):
        tier = "quick"
    sys.exit(run_check(sys.argv[1], tier))


if __name__ == "__main__":
    main()
